package c09

import (
	"bytes"
	"encoding/json"
	"fmt"
	"math"
	"regexp"
	"sort"
	"strconv"
	"strings"

	"github.com/johnkerl/miller/v6/pkg/bifs"
	"github.com/johnkerl/miller/v6/pkg/mlrval"

	"verif/harness/vf"
)

// capped lists at most n violations per key group per shard (cases come
// simplest-first); the rest are counted. Keeps floods from one cause small.
type capped struct {
	w *vf.Worker
	n map[string]int
}

func (c *capped) Violation(key, what string, replay any) {
	g := key
	if i := strings.IndexAny(key, "(:"); i > 0 {
		g = key[:i]
	}
	if c.n == nil {
		c.n = map[string]int{}
	}
	c.n[g]++
	if c.n[g] > 40 {
		c.w.Count("violations_counted_not_listed:"+g, 1)
		return
	}
	c.w.Violation(key, what, replay)
}

// cappedWorker is a vf.Worker whose Violation goes through the cap.
type cappedWorker struct {
	*vf.Worker
	c capped
}

func (w *cappedWorker) Violation(key, what string, replay any) { w.c.Violation(key, what, replay) }

// ================================================================ sort-within-records

var swrNames = []string{"a", "b", "B", "a10", "a9", "10", "9", "c"}

type swrVariant struct {
	name  string
	args  []string
	match func(name string) bool // nil: all fields are sorted
	nat   bool
}

func swrVariants() []swrVariant {
	sub := map[string]bool{"a": true, "B": true, "9": true, "a10": true}
	re := regexp.MustCompile(`^a`)
	return []swrVariant{
		{"plain", []string{"sort-within-records"}, nil, false},
		{"-r", []string{"sort-within-records", "-r"}, nil, false},
		{"-n", []string{"sort-within-records", "-n"}, nil, true},
		{"-f a,B,9,a10", []string{"sort-within-records", "-f", "a,B,9,a10"}, func(n string) bool { return sub[n] }, false},
		{"-r ^a", []string{"sort-within-records", "-r", "^a"}, re.MatchString, false},
		{"-n -f a,B,9,a10", []string{"sort-within-records", "-n", "-f", "a,B,9,a10"}, func(n string) bool { return sub[n] }, true},
	}
}

// checkFieldOrder: the selected field names must come out in ascending order
// (lexical = byte order, or natural), the others keep their relative order.
func checkFieldOrder(v swrVariant, in, out []string, st *orderStats) string {
	if len(in) != len(out) {
		return fmt.Sprintf("%d fields in, %d out", len(in), len(out))
	}
	var sel, rest, restIn []sym
	for _, n := range out {
		if v.match == nil || v.match(n) {
			sel = append(sel, str(n))
		} else {
			rest = append(rest, str(n))
		}
	}
	for _, n := range in {
		if v.match != nil && !v.match(n) {
			restIn = append(restIn, str(n))
		}
	}
	k := kLexA
	if v.nat {
		k = kNatA
	}
	if what := checkSeq(k, sel, st); what != "" {
		return "selected field names out of order: " + what
	}
	if seqText(rest) != seqText(restIn) {
		return fmt.Sprintf("fields not selected for sorting changed their relative order: %s became %s", seqText(restIn), seqText(rest))
	}
	return ""
}

func swrWorker(w0 *vf.Worker) {
	w := &cappedWorker{Worker: w0, c: capped{w: w0}}
	maxLen := 5
	if !w.Quick() {
		maxLen = 8
	}
	vars := swrVariants()
	var st orderStats
	var idx uint64
	// all injective sequences of field names, batched: one invocation per (first two names) prefix
	var seqs [][]string
	var cur []string
	var rec func(used uint32)
	rec = func(used uint32) {
		if len(cur) > 0 {
			seqs = append(seqs, append([]string{}, cur...))
		}
		if len(cur) == maxLen {
			return
		}
		for i, n := range swrNames {
			if used&(1<<uint(i)) != 0 {
				continue
			}
			cur = append(cur, n)
			rec(used | 1<<uint(i))
			cur = cur[:len(cur)-1]
		}
	}
	rec(0)
	sort.SliceStable(seqs, func(i, j int) bool { return len(seqs[i]) < len(seqs[j]) })
	const batch = 24
	for base := 0; base < len(seqs); base += batch {
		idx++
		if !w.Mine(idx) {
			continue
		}
		w.Begin(idx)
		end := base + batch
		if end > len(seqs) {
			end = len(seqs)
		}
		var lines []string
		for r, s := range seqs[base:end] {
			var f []string
			for j, n := range s {
				f = append(f, fmt.Sprintf("%s=r%dv%d", n, r, j))
			}
			lines = append(lines, strings.Join(f, ","))
		}
		text := strings.Join(lines, "\n") + "\n"
		for _, v := range vars {
			res := vf.RunMlr(v.args, vf.MlrOpts{Stdin: &text})
			w.Eval(int64(len(lines)))
			w.Count("swr:variant:"+v.name, int64(len(lines)))
			cmd := "mlr " + strings.Join(v.args, " ")
			outLines := strings.Split(strings.TrimSuffix(res.Stdout, "\n"), "\n")
			if !res.OK() || len(outLines) != len(lines) {
				w.Violation(fmt.Sprintf("swr-exit:%s:%s", v.name, lines[0]), fmt.Sprintf("%s fails or changes the number of records: %s", cmd, res.String()), map[string]any{"stdin": text})
				continue
			}
			for r, ol := range outLines {
				// same fields with the same values, records in stream order
				inF, outF := strings.Split(lines[r], ","), strings.Split(ol, ",")
				a, b := append([]string{}, inF...), append([]string{}, outF...)
				sort.Strings(a)
				sort.Strings(b)
				key := fmt.Sprintf("swr-%%s:%s:%s", v.name, lines[r])
				if strings.Join(a, ",") != strings.Join(b, ",") {
					w.Violation(fmt.Sprintf(key, "perm"), fmt.Sprintf("%s: record %q became %q: not the same fields", cmd, lines[r], ol), nil)
					continue
				}
				names := func(fs []string) []string {
					out := make([]string, len(fs))
					for i, f := range fs {
						out[i] = f[:strings.IndexByte(f, '=')]
					}
					return out
				}
				before := st.strict
				if what := checkFieldOrder(v, names(inF), names(outF), &st); what != "" {
					w.Violation(fmt.Sprintf(key, "order"), fmt.Sprintf("%s: record %q became %q: %s", cmd, lines[r], ol, what), nil)
					continue
				}
				if st.strict > before {
					w.Nontrivial(1)
				}
			}
		}
	}

	// nested maps (JSON): -r with no argument sorts submaps recursively, plain sorts the top level only
	type shape struct{ top, mid, low []string }
	var shapes []shape
	perms3 := [][]string{{"b", "a", "c"}, {"c", "b", "a"}, {"a", "c", "b"}, {"b", "c", "a"}, {"a", "b", "c"}, {"c", "a", "b"}, {"b", "a"}, {"a", "b"}, {"b"}}
	for _, t := range perms3 {
		for _, m := range perms3 {
			for _, l := range perms3[:4] {
				shapes = append(shapes, shape{t, m, l})
			}
		}
	}
	for si, sh := range shapes {
		idx++
		if !w.Mine(idx) {
			continue
		}
		w.Begin(idx)
		// the value at "b" (top) is a map; the value at "b" inside it is a map again
		var low []string
		for i, n := range sh.low {
			low = append(low, fmt.Sprintf("%q: %d", "z"+n, i))
		}
		var mid []string
		for i, n := range sh.mid {
			if n == "b" {
				mid = append(mid, fmt.Sprintf("%q: {%s}", "y"+n, strings.Join(low, ", ")))
			} else {
				mid = append(mid, fmt.Sprintf("%q: %d", "y"+n, i))
			}
		}
		var top []string
		for i, n := range sh.top {
			if n == "b" {
				top = append(top, fmt.Sprintf("%q: {%s}", "x"+n, strings.Join(mid, ", ")))
			} else {
				top = append(top, fmt.Sprintf("%q: %d", "x"+n, i))
			}
		}
		doc := "{" + strings.Join(top, ", ") + "}\n"
		inTree, err := parseOrdered(doc)
		if err != nil {
			w.Broken("swr: harness JSON does not parse: %v", err)
			return
		}
		for _, recursive := range []bool{false, true} {
			args := []string{"--ijson", "--ojson", "sort-within-records"}
			if recursive {
				args = append(args, "-r")
			}
			res := vf.RunMlr(args, vf.MlrOpts{Stdin: &doc})
			w.Eval(1)
			w.Count(fmt.Sprintf("swr:nested:recursive=%v", recursive), 1)
			key := fmt.Sprintf("swr-nested:recursive=%v:%s", recursive, strings.TrimSpace(doc))
			out := strings.TrimSpace(res.Stdout)
			out = strings.TrimSuffix(strings.TrimPrefix(out, "["), "]")
			outTree, err := parseOrdered(out)
			if !res.OK() || err != nil {
				w.Violation(key, fmt.Sprintf("mlr %s on %s fails: %s", strings.Join(args, " "), strings.TrimSpace(doc), res.String()), nil)
				continue
			}
			if what := checkTree(inTree, outTree, recursive, true, "$"); what != "" {
				w.Violation(key, fmt.Sprintf("mlr %s on %s: %s; output %s", strings.Join(args, " "), strings.TrimSpace(doc), what, strings.Join(strings.Fields(out), " ")), nil)
			} else {
				w.Nontrivial(1)
			}
		}
		_ = si
	}
	flushStats(w.Worker, "swr:", &st)
	if w.Shard == 0 {
		w.Sample(map[string]any{"worker": "swr", "command": "mlr sort-within-records -f a,B,9,a10", "stdin": "c=r0v0,a10=r0v1,B=r0v2,a=r0v3", "field_names": swrNames, "max_fields": maxLen})
	}
}

// ordered JSON tree: objects keep key order
type onode struct {
	keys []string
	kids []*onode // nil child = scalar
	leaf string
}

func parseOrdered(doc string) (*onode, error) {
	dec := json.NewDecoder(bytes.NewReader([]byte(doc)))
	dec.UseNumber()
	return parseNode(dec)
}

func parseNode(dec *json.Decoder) (*onode, error) {
	t, err := dec.Token()
	if err != nil {
		return nil, err
	}
	if d, ok := t.(json.Delim); ok {
		if d != '{' {
			return nil, fmt.Errorf("unexpected %v", d)
		}
		n := &onode{}
		for dec.More() {
			kt, err := dec.Token()
			if err != nil {
				return nil, err
			}
			k, ok := kt.(string)
			if !ok {
				return nil, fmt.Errorf("non-string key")
			}
			kid, err := parseNode(dec)
			if err != nil {
				return nil, err
			}
			n.keys = append(n.keys, k)
			n.kids = append(n.kids, kid)
		}
		if _, err := dec.Token(); err != nil {
			return nil, err
		}
		return n, nil
	}
	return &onode{leaf: fmt.Sprint(t)}, nil
}

func checkTree(in, out *onode, recursive, top bool, path string) string {
	if (in.keys == nil) != (out.keys == nil) {
		return "value kind changed at " + path
	}
	if in.keys == nil {
		if in.leaf != out.leaf {
			return fmt.Sprintf("value at %s changed from %s to %s", path, in.leaf, out.leaf)
		}
		return ""
	}
	if len(in.keys) != len(out.keys) {
		return "number of keys changed at " + path
	}
	want := append([]string{}, in.keys...)
	if top || recursive {
		sort.Strings(want)
	}
	if strings.Join(want, "\x00") != strings.Join(out.keys, "\x00") {
		return fmt.Sprintf("keys at %s are %v, expected %v", path, out.keys, want)
	}
	for i, k := range out.keys {
		var inKid *onode
		for j, ik := range in.keys {
			if ik == k {
				inKid = in.kids[j]
			}
		}
		if what := checkTree(inKid, out.kids[i], recursive, false, path+"."+k); what != "" {
			return what
		}
	}
	return ""
}

// ================================================================ top

func alphaT() []sym {
	return []sym{num("1", 1), num("1.0", 1), num("0x1", 1), num("2", 2), num("-3", -3), num("10", 10), num("2.5", 2.5), str("abc"), str(""), missingSym}
}

type topRec struct {
	v    sym
	g    string
	line string
}

// checkTop evaluates one group. rows: for -a the output record lines of the
// group, else the x_top texts of its rows in top_idx order.
func checkTop(recs []topRec, rows []string, n int, doMax, full bool, st *orderStats) string {
	var present []topRec
	for _, r := range recs {
		if !r.v.missing {
			present = append(present, r)
		}
	}
	cnt := n
	if len(present) < cnt {
		cnt = len(present)
	}
	if len(rows) < cnt {
		return fmt.Sprintf("%d values available, -n %d, but only %d rows", len(present), n, len(rows))
	}
	if full && len(rows) != cnt {
		return fmt.Sprintf("%d records available, -n %d, but %d records printed", len(present), n, len(rows))
	}
	used := make([]bool, len(present))
	var sel []sym
	for i := 0; i < cnt; i++ {
		found := -1
		for j, p := range present {
			if used[j] {
				continue
			}
			if (full && p.line == rows[i]) || (!full && p.v.text == rows[i]) {
				found = j
				break
			}
		}
		if found < 0 {
			return fmt.Sprintf("row %d (%q) is not an (unused) input value/record", i+1, rows[i])
		}
		used[found] = true
		sel = append(sel, present[found].v)
	}
	k := kNumD
	if !doMax {
		k = kNumA
	}
	if what := checkSeq(k, sel, st); what != "" {
		return "rows out of order: " + what
	}
	for j, p := range present {
		if used[j] {
			continue
		}
		for _, s := range sel {
			c, det := refCmp(k, s, p.v)
			st.pairs++
			if !det {
				st.undetermined++
				continue
			}
			if c > 0 {
				return fmt.Sprintf("value %q was left out although it ranks before the selected %q", p.v.text, s.text)
			}
			if c < 0 {
				st.strict++
			} else {
				st.ties++
			}
		}
	}
	return ""
}

func topWorker(w0 *vf.Worker) {
	w := &cappedWorker{Worker: w0, c: capped{w: w0}}
	T := alphaT()
	maxLen := 4
	if !w.Quick() {
		maxLen = 5
	}
	var st orderStats
	var idx uint64
	runCase := func(recs []topRec, grouped bool, ns []int) {
		var lines []string
		for _, r := range recs {
			lines = append(lines, r.line)
		}
		text := strings.Join(lines, "\n")
		if len(lines) > 0 {
			text += "\n"
		}
		for _, n := range ns {
			for _, doMax := range []bool{true, false} {
				for _, full := range []bool{false, true} {
					args := []string{"top", "-f", "x", "-n", strconv.Itoa(n)}
					if !doMax {
						args = append(args, "--min")
					} else if n%2 == 0 {
						args = append(args, "--max")
					}
					if full {
						args = append(args, "-a")
					}
					if grouped {
						args = append(args, "-g", "g")
					}
					res := vf.RunMlr(args, vf.MlrOpts{Stdin: &text})
					w.Eval(1)
					w.Count(fmt.Sprintf("top:n=%d", n), 1)
					w.Count(fmt.Sprintf("top:max=%v,all-fields=%v,grouped=%v", doMax, full, grouped), 1)
					cmd := "mlr " + strings.Join(args, " ")
					key := fmt.Sprintf("top:%s:%s", strings.Join(args[3:], " "), strings.Join(lines, " / "))
					if !res.OK() {
						w.Violation(key, fmt.Sprintf("%s fails: %s", cmd, res.String()), map[string]any{"stdin": text})
						continue
					}
					// split output rows per group
					rows := map[string][]string{}
					bad := ""
					if res.Stdout != "" {
						for _, l := range strings.Split(strings.TrimSuffix(res.Stdout, "\n"), "\n") {
							f := map[string]string{}
							for _, kv := range strings.Split(l, ",") {
								if i := strings.IndexByte(kv, '='); i >= 0 {
									f[kv[:i]] = kv[i+1:]
								}
							}
							g := f["g"]
							if full {
								rows[g] = append(rows[g], l)
							} else {
								v, ok := f["x_top"]
								if !ok || f["top_idx"] != strconv.Itoa(len(rows[g])+1) {
									bad = l
								}
								rows[g] = append(rows[g], v)
							}
						}
					}
					if bad != "" {
						w.Violation(key, fmt.Sprintf("%s: unexpected output row %q (expected top_idx counting from 1 and x_top)", cmd, bad), map[string]any{"stdin": text, "stdout": res.Stdout})
						continue
					}
					groups := map[string][]topRec{}
					var gorder []string
					for _, r := range recs {
						if grouped && r.g == "" {
							continue // lacks the group-by field
						}
						if _, ok := groups[r.g]; !ok {
							gorder = append(gorder, r.g)
						}
						groups[r.g] = append(groups[r.g], r)
					}
					before := st.strict
					failed := false
					for _, g := range gorder {
						if what := checkTop(groups[g], rows[g], n, doMax, full, &st); what != "" {
							w.Violation(key, fmt.Sprintf("%s on [%s] (group %q): %s; stdout %q", cmd, strings.Join(lines, " / "), g, what, res.Stdout), map[string]any{"stdin": text, "stdout": res.Stdout})
							failed = true
							break
						}
					}
					if !failed && st.strict > before {
						w.Nontrivial(1)
					}
				}
			}
		}
	}
	blocks(w.Worker, &idx, len(T), maxLen, 8, "top", func(list []int) {
		recs := make([]topRec, len(list))
		for j, x := range list {
			s := T[x]
			line := fmt.Sprintf("i=%d", j)
			if !s.missing {
				if j%2 == 0 {
					line = fmt.Sprintf("x=%s,i=%d", s.text, j)
				} else {
					line = fmt.Sprintf("i=%d,x=%s", j, s.text)
				}
			}
			recs[j] = topRec{v: s, line: line}
		}
		ns := []int{1, 2, 3, 5}
		if len(list) == maxLen {
			ns = []int{1, 2, 3}
		}
		runCase(recs, false, ns)
	})
	// grouped: value x group {p,q,absent}
	G := []string{"p", "q", ""}
	nT := len(T) * len(G)
	blocks(w.Worker, &idx, nT, 3, 8, "top -g", func(list []int) {
		recs := make([]topRec, len(list))
		for j, x := range list {
			s, g := T[x/len(G)], G[x%len(G)]
			var f []string
			if g != "" {
				f = append(f, "g="+g)
			}
			if !s.missing {
				f = append(f, "x="+s.text)
			}
			f = append(f, fmt.Sprintf("i=%d", j))
			recs[j] = topRec{v: s, g: g, line: strings.Join(f, ",")}
		}
		runCase(recs, true, []int{1, 2})
	})
	flushStats(w.Worker, "top:", &st)
	if w.Shard == 0 {
		w.Sample(map[string]any{"worker": "top", "command": "mlr top -f x -n 2 --min -a", "stdin": "x=1.0,i=0 / i=1,x=abc / x=-3,i=2", "value_alphabet": symNames(T), "max_len": maxLen})
	}
}

// ================================================================ comparator totality

type gridVal struct {
	name string
	mv   *mlrval.Mlrval
	s    *sym // reference classification, when the value belongs to a documented alphabet
}

func totalityGrid() []gridVal {
	var g []gridVal
	seen := map[string]bool{}
	addSym := func(s sym) {
		if s.missing || seen[symKey(s.cl, s.text)] {
			return
		}
		seen[symKey(s.cl, s.text)] = true
		s2 := s
		var mv *mlrval.Mlrval
		if s.cl == cBool {
			mv = mlrval.FromBool(s.val != 0)
		} else {
			mv = mlrval.FromDeferredType(s.text) // as a field value read from a file
		}
		g = append(g, gridVal{name: fmt.Sprintf("%s(%q)", [...]string{"num", "bool", "void", "str"}[s.cl], s.text), mv: mv, s: &s2})
	}
	for _, s := range alphaK1() {
		addSym(s)
	}
	for _, s := range alphaD() {
		addSym(s)
	}
	// numeric boundary values exactly representable as doubles
	for _, t := range []string{"0", "-0.0", "0.0", "0.5", "-0.5", "1e300", "-1e300", "1e-300", "5e-324",
		"9007199254740992", "-9007199254740992", "9007199254740992.0", "9007199254740994",
		"4611686018427387904", "9223372036854774784", "-9223372036854775808", "9223372036854775808", "18446744073709551616",
		"0xffffffffffffffff", "0x7ffffffffffffc00", "1E1", "+1", ".5", "5."} {
		mv := mlrval.FromDeferredType(t)
		g = append(g, gridVal{name: "data(" + t + ")", mv: mv})
	}
	g = append(g, gridVal{name: "int(7)", mv: mlrval.FromInt(7)}, gridVal{name: "float(7.5)", mv: mlrval.FromFloat(7.5)},
		gridVal{name: "float(+Inf)", mv: mlrval.FromFloat(math.Inf(1))}, gridVal{name: "float(-Inf)", mv: mlrval.FromFloat(math.Inf(-1))},
		gridVal{name: "absent", mv: mlrval.ABSENT}, gridVal{name: "error", mv: mlrval.FromAnonymousError()})
	// NaN excluded by the property
	out := g[:0]
	for _, v := range g {
		if f, ok := v.mv.GetNumericToFloatValue(); ok && math.IsNaN(f) {
			continue
		}
		out = append(out, v)
	}
	return out
}

type namedCmp struct {
	name     string
	f        func(a, b *mlrval.Mlrval) int
	asserted bool
	k        kind
	bind     bool // compare with the reference collation on documented symbols
}

func comparators() []namedCmp {
	bifCmp := func(a, b *mlrval.Mlrval) int {
		r := bifs.BIF_cmp(a, b)
		if v, ok := r.GetIntValue(); ok {
			return int(v)
		}
		return 99 // error / absent: not a comparison result
	}
	return []namedCmp{
		{"LexicalAscendingComparator", mlrval.LexicalAscendingComparator, true, kLexA, true},
		{"LexicalDescendingComparator", mlrval.LexicalDescendingComparator, true, kLexD, true},
		{"CaseFoldAscendingComparator", mlrval.CaseFoldAscendingComparator, true, kCfA, true},
		{"CaseFoldDescendingComparator", mlrval.CaseFoldDescendingComparator, true, kCfD, true},
		{"NumericAscendingComparator", mlrval.NumericAscendingComparator, true, kNumA, true},
		{"NumericDescendingComparator", mlrval.NumericDescendingComparator, true, kNumD, true},
		{"NaturalAscendingComparator", mlrval.NaturalAscendingComparator, false, kNatA, false},
		{"NaturalDescendingComparator", mlrval.NaturalDescendingComparator, false, kNatD, false},
		{"dsl-operator-<=>", bifCmp, false, kNumA, false},
	}
}

func totalWorker(w0 *vf.Worker) {
	w := &cappedWorker{Worker: w0, c: capped{w: w0}}
	G := totalityGrid()
	cmps := comparators()
	var idx uint64
	for ci, c := range cmps {
		for ai, a := range G {
			idx++
			if !w.Mine(idx) {
				continue
			}
			w.Begin(idx)
			cname, aname := c.name, a.name
			w.Label(func() string { return "totality " + cname + " a=" + aname })
			report := func(law, args, what string) {
				if c.asserted {
					w.Violation(fmt.Sprintf("total-%s-%s(%s)", c.name, law, args), what, nil)
				} else {
					w.Count("total:not-asserted:"+c.name+":"+law+"-failures", 1)
					w.AddSet("total-not-asserted-examples:"+c.name+":"+law, args)
				}
			}
			var rr int
			if p, _ := vf.Try(func() { rr = c.f(a.mv, a.mv) }); p != nil {
				w.Violation(fmt.Sprintf("total-%s-panic(%s)", c.name, a.name), fmt.Sprintf("%s(%s,%s) panics: %v", c.name, a.name, a.name, p), nil)
				continue
			}
			w.Eval(1)
			// reflexivity, on the value itself and on a separately built copy;
			// asserted for every sort comparator (ci < 8), the natural ones included
			rc := c.f(a.mv, a.mv.Copy())
			rc2 := c.f(a.mv.Copy(), a.mv)
			w.Eval(2)
			if rr != 0 || rc != 0 || rc2 != 0 {
				what := fmt.Sprintf("%s(%s,%s) = %d (copy on the right: %d, on the left: %d), expected 0", c.name, a.name, a.name, rr, rc, rc2)
				if ci < 8 {
					w.Violation(fmt.Sprintf("total-%s-reflexive(%s)", c.name, a.name), what, nil)
				} else {
					report("reflexive", a.name, what)
				}
			}
			for bi, b := range G {
				ab, ba := c.f(a.mv, b.mv), c.f(b.mv, a.mv)
				w.Eval(1)
				if ab == 99 || ba == 99 {
					w.Count("total:not-asserted:"+c.name+":not-a-number-result", 1)
					continue
				}
				if sgn(ab) != -sgn(ba) {
					report("antisymmetric", a.name+","+b.name, fmt.Sprintf("%s(%s,%s) = %d but %s(%s,%s) = %d", c.name, a.name, b.name, ab, c.name, b.name, a.name, ba))
				}
				// descending is the reverse of ascending
				if ci%2 == 0 && ci+1 < len(cmps) && c.asserted {
					if d := cmps[ci+1].f(a.mv, b.mv); sgn(d) != -sgn(ab) {
						w.Violation(fmt.Sprintf("total-%s-reversal(%s,%s)", cmps[ci+1].name, a.name, b.name), fmt.Sprintf("%s(%s,%s) = %d but %s gives %d: descending is not the reverse of ascending", c.name, a.name, b.name, ab, cmps[ci+1].name, d), nil)
					}
				}
				// agreement with the documented collation on alphabet symbols
				if c.bind && a.s != nil && b.s != nil {
					if want, det := refCmp(c.k, *a.s, *b.s); det {
						w.Count("total:bind-pairs", 1)
						if sgn(ab) != want {
							w.Violation(fmt.Sprintf("collation-%s(%s,%s)", c.name, a.name, b.name), fmt.Sprintf("%s(%s,%s) = %d, the documented %v collation gives %d", c.name, a.name, b.name, ab, c.k, want), nil)
						}
					} else {
						w.Count("total:bind-pairs-undetermined", 1)
					}
				}
				if ab > 0 {
					continue
				}
				for _, cc := range G {
					bc := c.f(b.mv, cc.mv)
					w.Eval(1)
					if bc == 99 || bc > 0 {
						continue
					}
					if ac := c.f(a.mv, cc.mv); ac > 0 && ac != 99 {
						report("transitive", a.name+","+b.name+","+cc.name, fmt.Sprintf("%s: %s <= %s and %s <= %s but %s > %s", c.name, a.name, b.name, b.name, cc.name, a.name, cc.name))
					}
				}
				_ = bi
			}
			w.Nontrivial(1)
			_ = ai
		}
	}
	if w.Shard == 0 {
		var names []string
		for _, v := range G {
			names = append(names, v.name+":"+v.mv.GetTypeName())
		}
		w.Sample(map[string]any{"worker": "total", "grid": names, "comparators": len(cmps)})
	}
}
