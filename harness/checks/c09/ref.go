package c09

// Reference collations, written from `mlr sort --help`, `mlr help function
// sort`, docs/src/sorting.md, reference-verbs.md (sort, top,
// sort-within-records) and reference-main-arithmetic.md. They share no code
// with Miller. Each comparator returns (sign, determined): cells the shipped
// documentation does not determine return determined=false; they are counted
// and never asserted.

import (
	"fmt"
	"strings"
)

type kind int

const (
	kLexA kind = iota
	kLexD
	kCfA
	kCfD
	kNumA
	kNumD
	kNatA
	kNatD
	nKinds
)

var kindNames = [...]string{"lexical-asc", "lexical-desc", "casefold-asc", "casefold-desc", "numeric-asc", "numeric-desc", "natural-asc", "natural-desc"}

func (k kind) String() string { return kindNames[k] }

type class int

const (
	cNum class = iota
	cBool
	cVoid
	cStr
)

// sym is one alphabet symbol: its text, and its documented type
// (reference-main-arithmetic.md: decimal and 0x ints, decimal floats are
// numbers, everything else from data is a string; reference-main-data-types.md:
// "true"/"false" from data are NOT booleans; only DSL literals are).
type sym struct {
	text    string
	missing bool // the field is absent from the record
	cl      class
	val     float64
	lit     string // DSL literal spelling ("" = not usable as a DSL literal)
}

func num(text string, v float64) sym { return sym{text: text, cl: cNum, val: v, lit: text} }
func str(text string) sym {
	if text == "" {
		return sym{text: "", cl: cVoid, lit: `""`}
	}
	return sym{text: text, cl: cStr, lit: `"` + text + `"`}
}
func boolean(b bool) sym {
	if b {
		return sym{text: "true", cl: cBool, val: 1, lit: "true"}
	}
	return sym{text: "false", cl: cBool, val: 0, lit: "false"}
}

var missingSym = sym{missing: true, text: "\x00missing"}

func sgn(i int) int {
	switch {
	case i < 0:
		return -1
	case i > 0:
		return 1
	}
	return 0
}

func asciiFold(s string) string {
	b := []byte(s)
	for i, c := range b {
		if c >= 'A' && c <= 'Z' {
			b[i] = c + 32
		}
	}
	return string(b)
}

// refLex: "Lexical ascending": byte order of the field text.
func refLex(a, b sym) (int, bool) { return strings.Compare(a.text, b.text), true }

// refCf: "Case-folded lexical ascending": fold case, then byte order. (Alphabets are ASCII.)
func refCf(a, b sym) (int, bool) {
	return strings.Compare(asciiFold(a.text), asciiFold(b.text)), true
}

// refNum: numbers by value first ("numbers first numerically and then strings
// lexically"; property: "numbers by value before booleans, empties and
// strings"). The relative order of booleans, empties and strings among each
// other is not fixed by the shipped docs (`sort -n` says "nulls sort last",
// which the implementation contradicts when strings are present), so those
// cells are undetermined.
func refNum(a, b sym) (int, bool) {
	if a.cl == cNum && b.cl == cNum {
		switch {
		case a.val < b.val:
			return -1, true
		case a.val > b.val:
			return 1, true
		}
		return 0, true
	}
	if a.cl == cNum {
		return -1, true
	}
	if b.cl == cNum {
		return 1, true
	}
	if a.cl == cStr && b.cl == cStr {
		return strings.Compare(a.text, b.text), true
	}
	if a.cl == b.cl && a.text == b.text {
		return 0, true
	}
	return 0, false
}

func isDigit(c byte) bool { return c >= '0' && c <= '9' }

func chunks(s string) []string {
	var out []string
	i := 0
	for i < len(s) {
		j := i
		d := isDigit(s[i])
		for j < len(s) && isDigit(s[j]) == d {
			j++
		}
		out = append(out, s[i:j])
		i = j
	}
	return out
}

func cmpDigits(x, y string) int {
	x = strings.TrimLeft(x, "0")
	y = strings.TrimLeft(y, "0")
	if len(x) != len(y) {
		return sgn(len(x) - len(y))
	}
	return strings.Compare(x, y)
}

// refNat: natural sort order (sorting.md points at Wikipedia and
// facette/natsort): byte order, except that maximal digit runs met at the same
// position compare by numeric value. Cells on which the two cited definitions
// disagree or say nothing (empty string; digit runs equal in value but not in
// text; a non-digit run that is a proper prefix of the other and is followed by
// a digit that does not sort before the other's next byte) are undetermined.
func refNat(a, b sym) (int, bool) {
	if a.text == b.text {
		return 0, true
	}
	if a.text == "" || b.text == "" {
		return 0, false
	}
	ca, cb := chunks(a.text), chunks(b.text)
	for i := 0; ; i++ {
		if i == len(ca) && i == len(cb) {
			return 0, false // e.g. "01" vs "1"
		}
		if i == len(ca) {
			return -1, true
		}
		if i == len(cb) {
			return 1, true
		}
		x, y := ca[i], cb[i]
		dx, dy := isDigit(x[0]), isDigit(y[0])
		if dx && dy {
			if c := cmpDigits(x, y); c != 0 {
				return c, true
			}
			if x != y {
				return 0, false // leading zeros
			}
			continue
		}
		if dx != dy {
			return strings.Compare(x[:1], y[:1]), true
		}
		if x == y {
			continue
		}
		// both non-digit runs
		short, long, s := x, y, -1
		if len(y) < len(x) {
			short, long, s = y, x, 1
		}
		if strings.HasPrefix(long, short) {
			// the shorter run ends here; what follows it?
			var rest []string
			if s == -1 {
				rest = ca[i+1:]
			} else {
				rest = cb[i+1:]
			}
			if len(rest) == 0 {
				return s, true // its string ends: prefix first
			}
			if rest[0][0] < long[len(short)] {
				return s, true // both definitions agree
			}
			return 0, false
		}
		return strings.Compare(x, y), true
	}
}

func refCmp(k kind, a, b sym) (int, bool) {
	var c int
	var det bool
	switch k {
	case kLexA, kLexD:
		c, det = refLex(a, b)
	case kCfA, kCfD:
		c, det = refCf(a, b)
	case kNumA, kNumD:
		c, det = refNum(a, b)
	default:
		c, det = refNat(a, b)
	}
	if k == kLexD || k == kCfD || k == kNumD || k == kNatD {
		c = -c
	}
	return sgn(c), det
}

// refChain compares two key tuples under the comparator chain (keys in
// precedence order).
func refChain(kinds []kind, a, b []sym) (int, bool) {
	for i, k := range kinds {
		c, det := refCmp(k, a[i], b[i])
		if !det {
			return 0, false
		}
		if c != 0 {
			return c, true
		}
	}
	return 0, true
}

// ---------------------------------------------------------------- verb oracle

type orderStats struct {
	pairs, undetermined, strict, ties int64
	tieReordered                      int64 // equal-under-comparator groups with distinct texts emitted against first-appearance order (a violation: usage promises a stable sort)
}

func sameTuple(a, b []sym) bool {
	for i := range a {
		if a[i].text != b[i].text {
			return false
		}
	}
	return true
}

func hasMissing(t []sym) bool {
	for _, s := range t {
		if s.missing {
			return true
		}
	}
	return false
}

// checkSorted evaluates the property's predicates on one run of the sort verb.
// in[i] is the key tuple of input record i; out is the output order as input
// indices (the caller has already established that each output record is
// byte-identical to the input record of that index). Returns "" or a violation
// class plus detail.
func checkSorted(kinds []kind, in [][]sym, out []int, st *orderStats) (string, string) {
	n := len(in)
	if len(out) != n {
		return "perm", fmt.Sprintf("%d records in, %d out", n, len(out))
	}
	seen := make([]bool, n)
	for _, i := range out {
		if i < 0 || i >= n || seen[i] {
			return "perm", fmt.Sprintf("output is not a permutation of the input: order %v", out)
		}
		seen[i] = true
	}
	// records lacking any key: last, in input order
	var spill []int
	for i, t := range in {
		if hasMissing(t) {
			spill = append(spill, i)
		}
	}
	m := n - len(spill)
	for j, i := range spill {
		if out[m+j] != i {
			return "spill", fmt.Sprintf("records lacking a sort key must come last in input order %v; output order %v", spill, out)
		}
	}
	// runs of identical key text
	type run struct {
		first int // index in out
		tuple []sym
	}
	var runs []run
	for p := 0; p < m; p++ {
		t := in[out[p]]
		if p > 0 && sameTuple(t, in[out[p-1]]) {
			if out[p] < out[p-1] {
				return "stable", fmt.Sprintf("records with identical key text are not in input order: output order %v", out)
			}
			continue
		}
		for _, r := range runs {
			if sameTuple(r.tuple, t) {
				return "contig", fmt.Sprintf("records with identical key text are not contiguous: output order %v", out)
			}
		}
		runs = append(runs, run{p, t})
	}
	for i := 0; i < len(runs); i++ {
		for j := i + 1; j < len(runs); j++ {
			c, det := refChain(kinds, runs[i].tuple, runs[j].tuple)
			st.pairs++
			if !det {
				st.undetermined++
				continue
			}
			if c > 0 {
				return "order", fmt.Sprintf("record #%d %s is output before record #%d %s but sorts after it under %v; output order %v",
					out[runs[i].first], tupleText(runs[i].tuple), out[runs[j].first], tupleText(runs[j].tuple), kinds, out)
			}
			if c == 0 {
				st.ties++
				// "The sort is stable: records that compare equal will sort in the
				// order they were encountered": two groups whose keys compare equal
				// (but differ in text) must come out in order of first appearance.
				// (Records of one text stay contiguous, so the usage cannot mean
				// more than this for 1 / 1.0 / 1.)
				if out[runs[i].first] > out[runs[j].first] {
					st.tieReordered++
					return "tiestable", fmt.Sprintf("record #%d %s and record #%d %s compare equal under %v but are output against their input order (usage: \"the sort is stable\"); output order %v",
						out[runs[j].first], tupleText(runs[j].tuple), out[runs[i].first], tupleText(runs[i].tuple), kinds, out)
				}
			} else {
				st.strict++
			}
		}
	}
	return "", ""
}

func tupleText(t []sym) string {
	var parts []string
	for _, s := range t {
		if s.missing {
			parts = append(parts, "<absent>")
		} else {
			parts = append(parts, fmt.Sprintf("%q", s.text))
		}
	}
	return "(" + strings.Join(parts, ",") + ")"
}

// checkSeq: the same ordering predicate for a plain sequence of values
// (arrays, map keys, map values): all pairs i<j must not be strictly
// descending under the reference comparator.
func checkSeq(k kind, seq []sym, st *orderStats) string {
	for i := 0; i < len(seq); i++ {
		for j := i + 1; j < len(seq); j++ {
			c, det := refCmp(k, seq[i], seq[j])
			st.pairs++
			if !det {
				st.undetermined++
				continue
			}
			if c > 0 {
				return fmt.Sprintf("element %d (%q) precedes element %d (%q) but sorts after it under %v", i+1, seq[i].text, j+1, seq[j].text, k)
			}
			if c == 0 {
				st.ties++
			} else {
				st.strict++
			}
		}
	}
	return ""
}
