// Package c09: `sort` and the sorting functions return a correctly ordered
// permutation. Bounded exhaustive enumeration of record lists x flag
// sequences on the real code (direct Transform calls for the bulk, in-process
// `mlr` for the command line and the DSL), with predicate oracles: permutation
// of byte-identical records, key-less records last in input order, identical
// key texts contiguous and in input order, and every pair of output groups
// ordered under a reference comparator chain written from the shipped docs
// (ref.go). Plus comparator totality over a value grid.
package c09

import (
	"fmt"
	"os"
	"sort"
	"strings"
	"time"

	"verif/harness/vf"
)

func init() {
	vf.Register(&vf.CheckDef{ID: "C09", Level: "model_checking", Run: run,
		Workers: map[string]vf.WorkerFunc{
			"verb1":  verb1Worker,
			"verbN":  verbNWorker,
			"ladder": ladderWorker,
			"names":  namesWorker,
			"tie":    tieWorker,
			"cli":    cliWorker,
			"dsl":    dslWorker,
			"hof":    hofWorker,
			"swr":    swrWorker,
			"top":    topWorker,
			"total":  totalWorker,
		}})
}

// ---------------------------------------------------------------- alphabets

// K1: key alphabet for the one-key verb enumeration (the design's 14 symbols
// plus two hex numbers differing only in letter case).
func alphaK1() []sym {
	return []sym{
		num("1", 1), num("1.0", 1), num("0x1", 1), num("2", 2), num("-3", -3), num("10", 10),
		str("abc"), str("Abc"), str("ABD"), str("a10"), str("a9"), str(""), str("true"), missingSym,
		num("0xB", 11), num("0xa", 10),
	}
}

// spelling: the tokens that precede the field name on the command line.
type spelling struct {
	toks []string
	k    kind
}

func (s spelling) String() string { return strings.Join(s.toks, " ") }

// every spelling transformerSortParseCLI accepts (usage text + the two-token
// forms its comments describe as equivalent)
var spellings = []spelling{
	{[]string{"-f"}, kLexA}, {[]string{"-r"}, kLexD},
	{[]string{"-c"}, kCfA}, {[]string{"-cr"}, kCfD},
	{[]string{"-nf"}, kNumA}, {[]string{"-nr"}, kNumD},
	{[]string{"-t"}, kNatA}, {[]string{"-tr"}, kNatD},
	// index 8.. : alternative spellings
	{[]string{"-n"}, kNumA}, {[]string{"-n", "-f"}, kNumA}, {[]string{"-n", "-r"}, kNumD},
	{[]string{"-c", "-r"}, kCfD}, {[]string{"-rt"}, kNatD}, {[]string{"-t", "-r"}, kNatD}, {[]string{"-r", "-t"}, kNatD},
}

const nCanonicalSpellings = 8 // spellings[0..7]: one per comparator kind

func pow(b, e int) int {
	r := 1
	for i := 0; i < e; i++ {
		r *= b
	}
	return r
}

// decode writes the base-n digits of v (most significant first) into dst.
func decode(v, n int, dst []int) {
	for i := len(dst) - 1; i >= 0; i-- {
		dst[i] = v % n
		v /= n
	}
}

// blocks enumerates all lists of length 0..maxLen over n symbols in
// length-then-lexicographic order, in blocks of blockSize lists; one Mine index
// per block.
func blocks(w *vf.Worker, idx *uint64, n, maxLen, blockSize int, label string, f func(list []int)) {
	for L := 0; L <= maxLen; L++ {
		total := pow(n, L)
		list := make([]int, L)
		for base := 0; base < total; base += blockSize {
			*idx++
			if !w.Mine(*idx) {
				continue
			}
			w.Begin(*idx)
			b, l := base, L
			w.Label(func() string {
				return fmt.Sprintf("%s: lists of length %d, numbers %d..%d", label, l, b, b+blockSize-1)
			})
			for v := base; v < total && v < base+blockSize; v++ {
				decode(v, n, list)
				f(list)
			}
		}
	}
}

type counters struct {
	names []string
	vals  []int64
}

func newCounters(names []string) *counters { return &counters{names, make([]int64, len(names))} }
func (c *counters) flush(w *vf.Worker, prefix string) {
	for i, v := range c.vals {
		if v != 0 {
			w.Count(prefix+c.names[i], v)
		}
	}
}

func flushStats(w *vf.Worker, prefix string, st *orderStats) {
	w.Count(prefix+"pairs_checked", st.pairs)
	w.Count(prefix+"pairs_undetermined_by_docs", st.undetermined)
	w.Count(prefix+"pairs_strict", st.strict)
	w.Count(prefix+"pairs_tied", st.ties)
	if st.tieReordered != 0 {
		w.Count(prefix+"tied_groups_emitted_against_first_appearance", st.tieReordered)
	}
}

func symNames(a []sym) []string {
	out := make([]string, len(a))
	for i, s := range a {
		if s.missing {
			out[i] = "<absent>"
		} else if s.text == "" {
			out[i] = "<empty>"
		} else {
			out[i] = s.text
		}
	}
	return out
}

// ---------------------------------------------------------------- orchestrator

func run(c *vf.Ctx) {
	c.Rule = "every list of records (length <= L) over a key alphabet x every flag sequence (all 15 spellings for one key, all 8^2 / 8^3 comparator-kind combinations for two / three keys), plus every first-key symbol held constant over all records with the last key deciding (tie pass), every assignment of 1..3 key slots to field names (set partitions a|aa ab|aaa aab aba abb abc) x every record shape (bare / +i / +i+z / +i with key fields reversed) per record, plus rotation/reversal/interleave permutations of 13..64-group ladders, every array/map (length <= L) over a value alphabet x every flag string / comparator function for the DSL functions, every record shape for sort-within-records, every value list x -n/-a/--min for top, and all ordered triples of a value grid for comparator totality. A case is non-trivial when the documentation determines a strict order for at least one pair of its groups/elements (so that a wrong order is observable); distinct_nontrivial counts such cases (cases are distinct by construction)"
	c.Assume("sort -b (which rewrites records by design) is checked through the command line only: expected records are the inputs with their sort fields moved to the start; field names are plain ASCII without separators")
	c.Assume("relative order of booleans, empty values and strings among each other under numeric collation is not asserted (usage says 'nulls sort last', the implementation puts empties before strings; the property only places numbers first); strings among themselves are asserted lexical")
	c.Assume("groups whose keys compare equal but differ in text (1, 1.0, 0x1; abc, Abc under -c) must come out in order of first appearance (usage: 'the sort is stable: records that compare equal will sort in the order they were encountered'); full record-level stability across such groups (1, 1.0, 1 -> 1, 1.0, 1) is NOT asserted, since the property keeps records of identical key text contiguous; no stability is asserted for the DSL sort functions or top (not documented)")
	c.Assume("natural collation is asserted only where Wikipedia's definition and facette/natsort (both cited by sorting.md) agree: empty strings, digit runs equal in value but not in text, and prefix runs followed by a non-smaller digit are undetermined")
	c.Assume("the DSL functions sort_by_key and sort_by_value named by the property do not exist in this tree (`mlr help function sort_by_key`: not found); their role is covered by sort(map) / sort(map, \"v...\") and by user comparator functions on keys / values")
	c.Assume("user comparator functions are exercised with `a <=> b` / `b <=> a` only on homogeneous arrays (all numbers or all non-empty strings) and with a text-length comparator (strlen(string(x))) on all arrays, where their meaning is documented; on mixed arrays only the permutation predicate is asserted")
	c.Assume("user comparator functions returning non-integers (a-b, b-a, (a-b)*0.5, (a-b)/100, (y-x)*0.25, av-bv, ... ; help: 'returning < 0, 0, or > 0') are exercised on numbers-only arrays / maps by value over {1, 1.125, 1.25, 0.5, 2, -3, 10, 1.0}: all values and differences are exact in binary, so the sign of every result is the sign of a-b")
	c.Assume("map keys that are hex/inf/nan spellings are excluded from the map-by-key enumeration (whether such a key counts as a number is not documented)")
	c.Assume("comparator totality is asserted for the lexical, case-folded and numeric comparators on values exactly representable as doubles, NaN excluded; the natural comparators and the DSL <=> operator are measured and reported, not asserted")
	c.Assume("a field named under several sort flags (sort -c a -f a) fills several key slots with the same value; a record has 'all specified sort keys' when it has every named field, whatever its width (usage: 'sorts records primarily by the first specified field, secondarily by the second field, and so on'; 'any records not having all specified sort keys will appear at end of output'); repeated names are not combined with -b")
	c.Assume("records without an index field can be byte-identical to each other; such records are indistinguishable, so an output record is matched with the earliest unmatched input record of its text (their mutual order is unobservable)")
	c.Assume("reflexivity (comparator(x, x) = 0, also for a separately built copy of x) is asserted for all eight sort comparators including the natural ones (a key cannot sort strictly before itself; without it later keys are never consulted); antisymmetry and transitivity of the natural comparators stay measured only")
	c.Assume("top: rows beyond the number of available values (void fillers) are not asserted")

	quick := c.Quick()
	sets := map[string]map[string]bool{}
	walls := map[string]float64{}
	only := os.Getenv("VERIF_C09_ONLY") // debugging aid: comma list of pools to run
	// worker processes: one P each (parallelism comes from the pool) and a lazy
	// collector - a third of the CPU went into collecting short-lived records;
	// a worker's live heap is a few MB, so GOGC=800 stays far below 100 MB per process
	gogc := os.Getenv("VERIF_C09_GOGC")
	if gogc == "" {
		gogc = "800"
	}
	gmp := os.Getenv("VERIF_C09_GMP")
	if gmp == "" {
		gmp = "1"
	}
	pool := func(name string, shards int) *vf.PoolResult {
		if only != "" && !strings.Contains(","+only+",", ","+name+",") {
			c.Exhaustive = false
			return &vf.PoolResult{Sets: map[string]map[string]bool{}}
		}
		t0 := time.Now()
		r := c.RunPool(vf.PoolSpec{Worker: name, Shards: shards, Env: []string{"GOMAXPROCS=" + gmp, "GOGC=" + gogc}})
		walls[name] = time.Since(t0).Seconds()
		return r
	}
	merge := func(r *vf.PoolResult) {
		for k, m := range r.Sets {
			if sets[k] == nil {
				sets[k] = map[string]bool{}
			}
			for s := range m {
				sets[k][s] = true
			}
		}
	}
	merge(pool("total", 16))
	merge(pool("verb1", 64))
	merge(pool("verbN", 64))
	merge(pool("ladder", 32))
	merge(pool("tie", 32))
	merge(pool("names", 64))
	merge(pool("cli", 32))
	merge(pool("hof", 32))
	merge(pool("dsl", 32))
	merge(pool("swr", 32))
	merge(pool("top", 64))
	_ = quick
	c.Extra["pool_wall_seconds(informational)"] = walls

	// vacuity guards
	for name, m := range sets {
		var l []string
		for s := range m {
			l = append(l, s)
		}
		sort.Strings(l)
		if len(l) > 200 {
			c.Extra["set:"+name+":size"] = len(l)
		} else {
			c.Extra["set:"+name] = l
		}
	}
	if only != "" {
		return
	}
	// every flag spelling and comparator kind must have been exercised
	for _, sp := range spellings {
		if c.Counters["verb1:spelling:"+sp.String()] == 0 {
			c.Broken("flag spelling %q never exercised", sp.String())
		}
		if c.Counters["cli:spelling:"+sp.String()] == 0 {
			c.Broken("flag spelling %q never exercised through the command line", sp.String())
		}
	}
	for k := kind(0); k < nKinds; k++ {
		if c.Counters["verbN:kind:"+k.String()] == 0 {
			c.Broken("comparator kind %v never exercised in a multi-key chain", k)
		}
	}
	for _, s := range symNames(alphaK1()) {
		if c.Counters["verb1:symbol:"+s] == 0 {
			c.Broken("alphabet symbol %q never exercised", s)
		}
	}
	// every slot-to-name partition, record shape and tying symbol must have been exercised
	for _, p := range partitions {
		if c.Counters["names:partition:"+p] == 0 {
			c.Broken("key-name partition %q never exercised", p)
		}
		if l := newLayout(p); len(l.distinct) < len(l.slotNames) && c.Counters["names:cli:partition:"+p] == 0 {
			c.Broken("key-name partition %q never exercised through the command line", p)
		}
	}
	for _, s := range shapeNames {
		if c.Counters["names:shape:"+s] == 0 {
			c.Broken("record shape %q never exercised", s)
		}
	}
	if c.Counters["names:cases_with_a_record_having_all_keys_but_fewer_fields_than_key_slots"] == 0 {
		c.Broken("no case with a record narrower than the key list")
	}
	for _, s := range symNames(alphaK1()) {
		if s != "<absent>" && c.Counters["tie:symbol:"+s] == 0 {
			c.Broken("tying symbol %q never exercised", s)
		}
	}
	for k := kind(0); k < nKinds; k++ {
		if c.Counters["tie:tying-kind:"+k.String()] == 0 {
			c.Broken("comparator kind %v never exercised on a tying key", k)
		}
	}
	if c.DistinctNontrivial < 2 {
		c.Broken("fewer than 2 non-trivial cases")
	}
}
