// Package c09: check for property C09 (see /verif/DESIGN.md §3 C09).
package c09
