package c09

import (
	"fmt"
	"strconv"
	"strings"

	"github.com/johnkerl/miller/v6/pkg/lib"
	"github.com/johnkerl/miller/v6/pkg/mlrval"
	"github.com/johnkerl/miller/v6/pkg/transformers"
	"github.com/johnkerl/miller/v6/pkg/types"

	"verif/harness/vf"
)

// ---------------------------------------------------------------- driving the verb

// fieldNames for up to three sort keys
var keyNames = []string{"a", "b", "c"}

// recFields lays out record j: the key fields that are present plus an index
// field "i" (which makes every record distinct); odd records carry the index
// first, even ones last, so that records are not all of one shape.
func recFields(j int, tuple []sym, names []string) (keys []string, vals []string) {
	if j%2 == 1 {
		keys, vals = append(keys, "i"), append(vals, strconv.Itoa(j))
	}
	for x, s := range tuple {
		if !s.missing {
			keys, vals = append(keys, names[x]), append(vals, s.text)
		}
	}
	if j%2 == 0 {
		keys, vals = append(keys, "i"), append(vals, strconv.Itoa(j))
	}
	return
}

func recLine(keys, vals []string, ifs string) string {
	var b strings.Builder
	for i := range keys {
		if i > 0 {
			b.WriteString(ifs)
		}
		b.WriteString(keys[i])
		b.WriteByte('=')
		b.WriteString(vals[i])
	}
	return b.String()
}

func mapLine(m *mlrval.Mlrmap) string {
	var b strings.Builder
	for pe := m.Head; pe != nil; pe = pe.Next {
		if pe != m.Head {
			b.WriteByte(',')
		}
		b.WriteString(pe.Key)
		b.WriteByte('=')
		b.WriteString(pe.Value.String())
	}
	return b.String()
}

// getoptified caches lib.Getoptify (it compiles three regexps per call); workers are single-threaded.
var getoptCache = map[string][]string{}

func getoptified(args []string) []string {
	k := strings.Join(args, "\x00")
	if v, ok := getoptCache[k]; ok {
		return v
	}
	v := lib.Getoptify(args)
	getoptCache[k] = v
	return v
}

// sortDirectRecs runs the real verb: the verb's own command-line parser builds the
// transformer, every record is fed through Transform, then end of stream.
// Returns the output order as input indices (-1: an output record that is not
// byte-identical to any not-yet-matched input record). Input records that are
// byte-identical to each other (possible only for records without an index
// field) are indistinguishable from the outside: an output record that is not
// an unchanged input record object is matched with the earliest unmatched
// input record of its text.
func sortDirectRecs(args []string, n int, fields func(j int) (keys, vals []string)) (out []int, err string) {
	// main applies lib.Getoptify to the whole command line before any verb parser sees it ("-cr" -> "-c -r")
	args = getoptified(args)
	argi := 0
	tr, perr := transformers.SortSetup.ParseCLIFunc(&argi, len(args), args, nil, true)
	if perr != nil || tr == nil {
		return nil, fmt.Sprintf("command line %v rejected: %v", args, perr)
	}
	if argi != len(args) {
		return nil, fmt.Sprintf("command line %v: parser stopped at token %d", args, argi)
	}
	ctx := types.NewContext()
	recs := make([]*mlrval.Mlrmap, n)
	kss, vss := make([][]string, n), make([][]string, n)
	var outl []*types.RecordAndContext
	for j := 0; j < n; j++ {
		ks, vs := fields(j)
		m := mlrval.NewMlrmapAsRecord()
		for x := range ks {
			m.PutReference(ks[x], mlrval.FromDeferredType(vs[x]))
		}
		recs[j], kss[j], vss[j] = m, ks, vs
		if e := tr.Transform(types.NewRecordAndContext(m, ctx), &outl, nil, nil); e != nil {
			return nil, "Transform: " + e.Error()
		}
	}
	if len(outl) != 0 {
		return nil, fmt.Sprintf("sort emitted %d records before end of stream", len(outl))
	}
	if e := tr.Transform(types.NewEndOfStreamMarker(ctx), &outl, nil, nil); e != nil {
		return nil, "Transform: " + e.Error()
	}
	if len(outl) == 0 || !outl[len(outl)-1].EndOfStream {
		return nil, "end-of-stream marker not forwarded last"
	}
	used := make([]bool, n)
	for _, rc := range outl[:len(outl)-1] {
		if rc.EndOfStream || rc.Record == nil {
			return nil, "non-record item in output"
		}
		// fast path: the verb hands the input record object on; the object only
		// says WHICH input record to compare with, the fields are compared in full
		j := -1
		for x := range recs {
			if recs[x] == rc.Record {
				if !used[x] && sameFields(rc.Record, kss[x], vss[x]) {
					j = x
				}
				break
			}
		}
		if j < 0 {
			// by text: the earliest unmatched input record with the same bytes
			l := mapLine(rc.Record)
			for x := range recs {
				if !used[x] && recLine(kss[x], vss[x], ",") == l {
					j = x
					break
				}
			}
		}
		if j >= 0 {
			used[j] = true
		}
		out = append(out, j)
	}
	return out, ""
}

// sameFields: the record has exactly these fields with exactly these texts, in this order.
func sameFields(m *mlrval.Mlrmap, ks, vs []string) bool {
	i := 0
	for pe := m.Head; pe != nil; pe = pe.Next {
		if i >= len(ks) || pe.Key != ks[i] || pe.Value.String() != vs[i] {
			return false
		}
		i++
	}
	return i == len(ks)
}

func listText(in [][]sym) string {
	var parts []string
	for _, t := range in {
		var f []string
		for _, s := range t {
			if s.missing {
				f = append(f, "-")
			} else {
				f = append(f, s.text)
			}
		}
		parts = append(parts, strings.Join(f, ";"))
	}
	return "[" + strings.Join(parts, " | ") + "]"
}

func replayFor(args []string, n int, fields func(j int) ([]string, []string), out []int) map[string]any {
	var lines []string
	for j := 0; j < n; j++ {
		ks, vs := fields(j)
		lines = append(lines, recLine(ks, vs, ";"))
	}
	return map[string]any{
		"command":      "mlr --ifs ';' --ofs ';' " + strings.Join(args, " "),
		"input_lines":  lines,
		"output_order": out,
		"note":         "records are DKVP with ';' as field separator so that values may contain commas; field i (when present) is the input position; byte-identical input records are matched earliest-first",
	}
}

type verbEval struct {
	w     *vf.Worker
	st    orderStats
	names []string
	nviol map[string]int
	// names.go: key slots mapped onto (possibly repeated) field names and a
	// per-record shape; nil = one distinct name per slot, recFields layout
	lay    *layout
	shapes []int
}

// fieldsOf lays out input record j of the current case.
func (e *verbEval) fieldsOf(in [][]sym) func(j int) ([]string, []string) {
	if e.lay == nil {
		return func(j int) ([]string, []string) { return recFields(j, in[j], e.names) }
	}
	return func(j int) ([]string, []string) { return e.lay.fields(j, in[j], e.shapes[j]) }
}

// caseText: the key tuples of the case, plus the record shapes when they vary.
func (e *verbEval) caseText(in [][]sym) string {
	t := listText(in)
	if e.lay == nil {
		return t
	}
	var b strings.Builder
	for _, s := range e.shapes[:len(in)] {
		b.WriteString(shapeNames[s][:1])
	}
	return t + "/shapes=" + b.String()
}

// violation records at most 2 violations per (class, trigger label, flag
// sequence) and 40 per (class, trigger label) per shard (cases come simplest-first, so the smallest
// counterexamples are kept); the rest are counted. The trigger label only
// groups violations that share a recognisable input feature, so that a flood
// from one cause cannot crowd out another; it never changes a verdict.
func (e *verbEval) violation(prefix, cls string, args []string, in [][]sym, what string, replay any) {
	label := triggerLabel(args, in)
	flags := strings.Join(args[1:], " ")
	capKey := cls + label + "|" + flags
	if e.nviol == nil {
		e.nviol = map[string]int{}
	}
	e.nviol[capKey]++
	e.nviol[cls+label]++
	if e.nviol[capKey] > 2 || e.nviol[cls+label] > 40 {
		e.w.Count("violations_counted_not_listed:"+prefix+cls+label, 1)
		return
	}
	e.w.Violation(fmt.Sprintf("%s%s%s:%s:%s", prefix, cls, label, flags, e.caseText(in)), what, replay)
}

func triggerLabel(args []string, in [][]sym) string {
	comma, hexUpper, hexLower := false, false, false
	for _, t := range in {
		for _, s := range t {
			if s.missing {
				continue
			}
			if len(t) > 1 && strings.Contains(s.text, ",") {
				comma = true
			}
			if s.cl == cNum && strings.ContainsAny(s.text, "ABCDEF") {
				hexUpper = true
			}
			if s.cl == cNum && strings.ContainsAny(s.text, "abcdef") {
				hexLower = true
			}
		}
	}
	if comma {
		return "[comma-in-key-value]"
	}
	if hexUpper && hexLower {
		for _, a := range args {
			if a == "-c" || a == "-cr" {
				return "[casefold-of-number]"
			}
		}
	}
	return ""
}

// eval runs one (flag sequence, list) case through the direct path and applies the oracle.
func (e *verbEval) eval(tag string, args []string, kinds []kind, in [][]sym) {
	e.w.Eval(1)
	var out []int
	var errs string
	fields := e.fieldsOf(in)
	p, stack := vf.Try(func() { out, errs = sortDirectRecs(args, len(in), fields) })
	if p != nil {
		e.violation("sort-", "panic", args, in, fmt.Sprintf("mlr %s panics: %v", strings.Join(args, " "), p), map[string]any{"stack": stack, "replay": replayFor(args, len(in), fields, nil)})
		return
	}
	if errs != "" {
		e.violation("sort-", "error", args, in, fmt.Sprintf("mlr %s: %s", strings.Join(args, " "), errs), replayFor(args, len(in), fields, nil))
		return
	}
	for _, j := range out {
		if j < 0 {
			e.violation("sort-", "changed", args, in, fmt.Sprintf("mlr %s on %s: an output record is not byte-identical to any (unmatched) input record", strings.Join(args, " "), e.caseText(in)), replayFor(args, len(in), fields, out))
			return
		}
	}
	before := e.st.strict
	cls, what := checkSorted(kinds, in, out, &e.st)
	if cls != "" {
		e.violation("sort-", cls, args, in, fmt.Sprintf("mlr %s on %s: %s", strings.Join(args, " "), e.caseText(in), what), replayFor(args, len(in), fields, out))
		return
	}
	if e.st.strict > before {
		e.w.Nontrivial(1)
	}
	_ = tag
}

// ---------------------------------------------------------------- verb1: one key, all spellings

func verb1Worker(w *vf.Worker) {
	K := alphaK1()
	maxLen := 5
	if !w.Quick() {
		maxLen = 6
	}
	ev := &verbEval{w: w, names: []string{"k"}}
	symHits := newCounters(symNames(K))
	var spHits [32]int64
	var idx uint64
	in := make([][]sym, 0, 8)
	blocks(w, &idx, len(K), maxLen, 512, "sort one key", func(list []int) {
		in = in[:0]
		for _, s := range list {
			in = append(in, []sym{K[s]})
			symHits.vals[s]++
		}
		for si, sp := range spellings {
			// the longest lists only with the canonical spelling of each comparator
			if len(list) == maxLen && si >= nCanonicalSpellings {
				continue
			}
			args := append(append([]string{"sort"}, sp.toks...), "k")
			ev.eval("verb1", args, []kind{sp.k}, in)
			spHits[si]++
		}
	})
	symHits.flush(w, "verb1:symbol:")
	for si, sp := range spellings {
		w.Count("verb1:spelling:"+sp.String(), spHits[si])
	}
	flushStats(w, "verb1:", &ev.st)
	if w.Shard == 0 {
		w.Sample(map[string]any{"worker": "verb1", "command": "mlr sort -nr k", "input": "k=1.0,i=0 / i=1 / k=0x1,i=2 / k=abc,i=3", "alphabet": symNames(K), "max_len": maxLen})
	}
}

// ---------------------------------------------------------------- verbN: two and three keys, all comparator-kind combinations

// alphabets for the multi-key enumeration; K2a/K2b contain a pair of values
// whose comma-joined texts coincide across different tuples ("x,y"+"z" vs "x"+"y,z").
func alphaK2(quick bool) (a, b []sym) {
	a = []sym{num("1", 1), num("1.0", 1), num("10", 10), str("a9"), str("a10"), str("Ab"), str(""), missingSym, str("x"), str("x,y")}
	b = []sym{num("2", 2), num("0x2", 2), str("B"), str("b"), missingSym, str("z"), str("y,z")}
	if quick {
		// the first-key alphabet keeps a symbol of EVERY class (the empty value included): later keys are
		// consulted only on a first-key tie, so a class absent here is a class whose ties are never seen
		a = []sym{num("1", 1), num("1.0", 1), num("10", 10), str("a9"), str("a10"), str("Ab"), str(""), missingSym, str("x"), str("x,y")}
		b = []sym{num("2", 2), num("0x2", 2), str("B"), str("b"), str("z"), str("y,z")}
	}
	return
}

func alphaK3() (a, b, c []sym) {
	a = []sym{num("1", 1), num("1.0", 1), str("a")}
	b = []sym{str("B"), str("b"), missingSym}
	c = []sym{num("2", 2), num("10", 10), str("")}
	return
}

func verbNWorker(w *vf.Worker) {
	var idx uint64
	var kindHits [nKinds]int64
	// ---- two keys
	A, B := alphaK2(w.Quick())
	tuples2 := make([][]sym, 0, len(A)*len(B))
	for _, x := range A {
		for _, y := range B {
			tuples2 = append(tuples2, []sym{x, y})
		}
	}
	ev := &verbEval{w: w, names: keyNames[:2]}
	in := make([][]sym, 0, 8)
	blocks(w, &idx, len(tuples2), 3, 256, "sort two keys", func(list []int) {
		in = in[:0]
		for _, t := range list {
			in = append(in, tuples2[t])
		}
		for k1 := kind(0); k1 < nKinds; k1++ {
			for k2 := kind(0); k2 < nKinds; k2++ {
				args := []string{"sort"}
				args = append(append(args, spellings[k1].toks...), "a")
				args = append(append(args, spellings[k2].toks...), "b")
				ev.eval("verb2", args, []kind{k1, k2}, in)
				kindHits[k1]++
				kindHits[k2]++
			}
		}
	})
	flushStats(w, "verb2:", &ev.st)

	// ---- three keys
	A3, B3, C3 := alphaK3()
	var tuples3 [][]sym
	for _, x := range A3 {
		for _, y := range B3 {
			for _, z := range C3 {
				tuples3 = append(tuples3, []sym{x, y, z})
			}
		}
	}
	ev3 := &verbEval{w: w, names: keyNames[:3]}
	maxLen3 := 2
	if !w.Quick() {
		maxLen3 = 3
	}
	run3 := func(list []int, thin bool) {
		in = in[:0]
		for _, t := range list {
			in = append(in, tuples3[t])
		}
		for k1 := kind(0); k1 < nKinds; k1++ {
			for k2 := kind(0); k2 < nKinds; k2++ {
				for k3 := kind(0); k3 < nKinds; k3++ {
					if thin && (k1%2 != 0 || k2%2 != 1 || (k3 != kNumA && k3 != kNumD && k3 != kLexD)) {
						continue
					}
					args := []string{"sort"}
					args = append(append(args, spellings[k1].toks...), "a")
					args = append(append(args, spellings[k2].toks...), "b")
					args = append(append(args, spellings[k3].toks...), "c")
					ev3.eval("verb3", args, []kind{k1, k2, k3}, in)
					kindHits[k1]++
					kindHits[k2]++
					kindHits[k3]++
				}
			}
		}
	}
	blocks(w, &idx, len(tuples3), maxLen3, 8, "sort three keys", func(list []int) { run3(list, false) })
	if w.Quick() {
		// length 3 with a thinned flag set (ascending kinds on key 1, descending on key 2, three kinds on key 3)
		total := pow(len(tuples3), 3)
		list := make([]int, 3)
		for base := 0; base < total; base += 64 {
			idx++
			if !w.Mine(idx) {
				continue
			}
			w.Begin(idx)
			for v := base; v < total && v < base+64; v++ {
				decode(v, len(tuples3), list)
				run3(list, true)
			}
		}
		if w.Shard == 0 {
			w.Inexhaustive("quick tier: three-key lists of length 3 run with 48 of the 512 comparator-kind combinations (all 512 for length <= 2); thorough runs all")
		}
	}
	flushStats(w, "verb3:", &ev3.st)
	for k := kind(0); k < nKinds; k++ {
		w.Count("verbN:kind:"+k.String(), kindHits[k])
	}
	if w.Shard == 0 {
		w.Sample(map[string]any{"worker": "verbN", "command": "mlr sort -f a -nr b", "input": "a=x,y;b=z;i=0 / a=x;b=y,z;i=1 / a=x;b=zz;i=2 (';' as IFS)", "two_key_tuples": len(tuples2), "three_key_tuples": len(tuples3)})
	}
}

// ---------------------------------------------------------------- ladder: more than 12 distinct groups

func ladderSyms() []sym {
	l := []sym{
		num("-3", -3), num("-2.5", -2.5), num("0", 0), num("1", 1), num("1.0", 1), num("0x1", 1), num("2", 2), num("9", 9), num("10", 10), num("1e1", 10),
		num("0xB", 11), num("0xa", 10), num("100", 100), str("A10"), str("ABD"), str("Abc"), str("a10"), str("a9"), str("a09"), str("abc"), str("abd"), str("b"), str(""), str("true"),
	}
	// extend with a plain numeric and string tail to leave the small-slice regimes of sort.Slice
	for i := 11; i <= 30; i++ {
		l = append(l, num(strconv.Itoa(i*7), float64(i*7)))
		l = append(l, str("k"+strconv.Itoa(i*3)))
	}
	return l
}

// permutations of 0..n-1 by rotation, reversal and interleave
func ladderPerms(n int) [][]int {
	var out [][]int
	base := make([]int, n)
	for i := range base {
		base[i] = i
	}
	rot := func(p []int, r int) []int {
		q := make([]int, len(p))
		for i := range p {
			q[i] = p[(i+r)%len(p)]
		}
		return q
	}
	rev := func(p []int) []int {
		q := make([]int, len(p))
		for i := range p {
			q[i] = p[len(p)-1-i]
		}
		return q
	}
	inter := func(p []int) []int { // first half and second half interleaved
		q := make([]int, 0, len(p))
		h := (len(p) + 1) / 2
		for i := 0; i < h; i++ {
			q = append(q, p[i])
			if h+i < len(p) {
				q = append(q, p[h+i])
			}
		}
		return q
	}
	stride := func(p []int, s int) []int { // multiplicative shuffle, s coprime to n
		q := make([]int, len(p))
		for i := range p {
			q[i] = p[(i*s)%len(p)]
		}
		return q
	}
	rots := []int{0, 1, 2, 3, 5, n / 2, n - 1}
	for _, r := range rots {
		p := rot(base, r%n)
		out = append(out, p, rev(p), inter(p), rev(inter(p)))
	}
	for _, s := range []int{3, 5, 7, 11, 13} {
		if gcd(s, n) == 1 {
			out = append(out, stride(base, s), rev(stride(base, s)))
		}
	}
	return out
}

func gcd(a, b int) int {
	for b != 0 {
		a, b = b, a%b
	}
	return a
}

func ladderWorker(w *vf.Worker) {
	L := ladderSyms()
	sizes := []int{13, 14, 15, 16, 17, 20, 24, 33, 51, 64}
	if w.Quick() {
		sizes = []int{13, 14, 16, 20, 24, 51, 64}
	}
	ev := &verbEval{w: w, names: []string{"k"}}
	var idx uint64
	for _, n := range sizes {
		for pi, p := range ladderPerms(n) {
			for dup := 0; dup < 2; dup++ {
				idx++
				if !w.Mine(idx) {
					continue
				}
				w.Begin(idx)
				nn, ppi, d := n, pi, dup
				w.Label(func() string { return fmt.Sprintf("ladder n=%d perm=%d dup=%d", nn, ppi, d) })
				var in [][]sym
				for _, x := range p {
					in = append(in, []sym{L[x]})
				}
				if dup == 1 {
					// duplicates of every third key and two key-less records in the middle
					for i := 0; i < len(p); i += 3 {
						in = append(in, []sym{L[p[i]]})
					}
					mid := len(in) / 2
					in = append(in[:mid], append([][]sym{{missingSym}, {missingSym}}, in[mid:]...)...)
				}
				for _, sp := range spellings[:nCanonicalSpellings] {
					args := append(append([]string{"sort"}, sp.toks...), "k")
					ev.eval("ladder", args, []kind{sp.k}, in)
					w.Count("ladder:kind:"+sp.k.String(), 1)
				}
				// two keys: ladder value on the second key, a 3-valued first key
				first := []sym{str("b"), str("a"), str("B")}
				var in2 [][]sym
				for i, t := range in {
					in2 = append(in2, []sym{first[i%3], t[0]})
				}
				ev2 := &verbEval{w: w, names: keyNames[:2]}
				for _, ks := range [][]kind{{kLexA, kNumD}, {kCfD, kNatA}, {kLexD, kLexA}, {kCfA, kNumA}} {
					args := []string{"sort"}
					args = append(append(args, spellings[ks[0]].toks...), "a")
					args = append(append(args, spellings[ks[1]].toks...), "b")
					ev2.eval("ladder2", args, ks, in2)
				}
				ev.st.pairs += ev2.st.pairs
				ev.st.undetermined += ev2.st.undetermined
				ev.st.strict += ev2.st.strict
				ev.st.ties += ev2.st.ties
				ev.st.tieReordered += ev2.st.tieReordered
				w.AddSet("ladder-sizes", strconv.Itoa(len(in)))
			}
		}
	}
	flushStats(w, "ladder:", &ev.st)
	if w.Shard == 0 {
		w.Sample(map[string]any{"worker": "ladder", "command": "mlr sort -t k", "groups": sizes, "ladder": symNames(L[:24])})
	}
}

// ---------------------------------------------------------------- cli: the same predicates through the real command line

func runSortCLI(mainFlags, verbArgs []string, lines []string) vf.MlrResult {
	text := strings.Join(lines, "\n")
	if len(lines) > 0 {
		text += "\n"
	}
	args := append(append([]string{}, mainFlags...), verbArgs...)
	return vf.RunMlr(args, vf.MlrOpts{Stdin: &text})
}

// movedToHead: the record with its sort fields (those present, in key order) moved to the start: `sort -b`.
func movedToHead(ks, vs, names []string) ([]string, []string) {
	var mk, mv []string
	for _, n := range names {
		for x := range ks {
			if ks[x] == n {
				mk, mv = append(mk, ks[x]), append(mv, vs[x])
			}
		}
	}
	for x := range ks {
		isKey := false
		for _, n := range names {
			isKey = isKey || ks[x] == n
		}
		if !isKey {
			mk, mv = append(mk, ks[x]), append(mv, vs[x])
		}
	}
	return mk, mv
}

func (e *verbEval) evalCLI(mainFlags, verbArgs []string, kinds []kind, in [][]sym, ifs string) {
	e.w.Eval(1)
	lines := make([]string, len(in))
	// text -> input indices not yet matched (byte-identical input records,
	// possible only without an index field, are matched earliest-first)
	idxOf := map[string][]int{}
	moveHead := len(verbArgs) > 1 && verbArgs[1] == "-b"
	fields := e.fieldsOf(in)
	for j, t := range in {
		ks, vs := fields(j)
		lines[j] = recLine(ks, vs, ifs)
		if moveHead {
			// "-b Move sort fields to start of record": expected record text is the moved one
			// (for records lacking a key the usage says nothing: either form is accepted)
			mk, mv := movedToHead(ks, vs, e.names)
			ml := recLine(mk, mv, ifs)
			idxOf[ml] = append(idxOf[ml], j)
			if hasMissing(t) && ml != lines[j] {
				idxOf[lines[j]] = append(idxOf[lines[j]], j)
			}
			continue
		}
		idxOf[lines[j]] = append(idxOf[lines[j]], j)
	}
	r := runSortCLI(mainFlags, verbArgs, lines)
	cmd := "mlr " + strings.Join(append(append([]string{}, mainFlags...), verbArgs...), " ")
	replay := map[string]any{"command": cmd, "stdin_lines": lines, "stdout": r.Stdout, "stderr": r.Stderr, "exit": r.Exit}
	if !r.OK() {
		e.violation("cli-sort-", "exit", verbArgs, in, fmt.Sprintf("%s fails: %s", cmd, r.String()), replay)
		return
	}
	var out []int
	if r.Stdout != "" {
		for _, l := range strings.Split(strings.TrimSuffix(r.Stdout, "\n"), "\n") {
			q := idxOf[l]
			if len(q) == 0 {
				e.violation("cli-sort-", "changed", verbArgs, in, fmt.Sprintf("%s: output line %q is not byte-identical to any (unmatched) input record", cmd, l), replay)
				return
			}
			out = append(out, q[0])
			idxOf[l] = q[1:]
		}
	}
	before := e.st.strict
	cls, what := checkSorted(kinds, in, out, &e.st)
	if cls != "" {
		e.violation("cli-sort-", cls, verbArgs, in, fmt.Sprintf("%s on %s: %s", cmd, e.caseText(in), what), replay)
		return
	}
	if e.st.strict > before {
		e.w.Nontrivial(1)
	}
}

func cliWorker(w *vf.Worker) {
	K := alphaK1()
	maxLen := 3
	if !w.Quick() {
		maxLen = 4
	}
	ev := &verbEval{w: w, names: []string{"k"}}
	var spHits [32]int64
	var idx uint64
	in := make([][]sym, 0, 8)
	blocks(w, &idx, len(K), maxLen, 16, "cli sort one key", func(list []int) {
		in = in[:0]
		for _, s := range list {
			in = append(in, []sym{K[s]})
		}
		for si, sp := range spellings {
			if len(list) == 4 && si >= nCanonicalSpellings {
				continue
			}
			ev.evalCLI(nil, append(append([]string{"sort"}, sp.toks...), "k"), []kind{sp.k}, in, ",")
			spHits[si]++
		}
	})
	for si, sp := range spellings {
		w.Count("cli:spelling:"+sp.String(), spHits[si])
	}
	// two keys: every pair of spellings (15 x 15), separate flags and comma lists, ';' as field separator so that values may hold commas
	A, B := alphaK2(true)
	var tuples [][]sym
	for _, x := range A {
		for _, y := range B {
			tuples = append(tuples, []sym{x, y})
		}
	}
	ev2 := &verbEval{w: w, names: keyNames[:2]}
	main2 := []string{"--ifs", ";", "--ofs", ";"}
	// a fixed family of lists: all pairs of tuples (length 2) for the canonical kinds; all 225 spelling pairs on a rotating subset
	n := len(tuples)
	for v := 0; v < n*n; v++ {
		idx++
		if !w.Mine(idx) {
			continue
		}
		w.Begin(idx)
		l := []int{v / n, v % n, (v*7 + 3) % n}
		in = in[:0]
		for _, t := range l {
			in = append(in, tuples[t])
		}
		for k1 := 0; k1 < nCanonicalSpellings; k1++ {
			for k2 := 0; k2 < nCanonicalSpellings; k2++ {
				if (k1+k2+v)%4 != 0 { // a quarter of the 64 combinations per list, all of them over any 4 consecutive lists
					continue
				}
				s1, s2 := spellings[k1], spellings[k2]
				args := []string{"sort"}
				args = append(append(args, s1.toks...), "a")
				args = append(append(args, s2.toks...), "b")
				ev2.evalCLI(main2, args, []kind{s1.k, s2.k}, in, ";")
			}
		}
		// -b: sort fields moved to the start of each record, order as without -b
		{
			s1, s2 := spellings[(v/3)%nCanonicalSpellings], spellings[(v/24)%nCanonicalSpellings]
			args := []string{"sort", "-b"}
			args = append(append(args, s1.toks...), "a")
			args = append(append(args, s2.toks...), "b")
			ev2.evalCLI(main2, args, []kind{s1.k, s2.k}, in, ";")
			w.Count("cli:-b", 1)
		}
		// comma-list spelling: `-f a,b` means `-f a -f b`
		sp := spellings[v%len(spellings)]
		ev2.evalCLI(main2, append(append([]string{"sort"}, sp.toks...), "a,b"), []kind{sp.k, sp.k}, in, ";")
		w.Count("cli:comma-list:"+sp.String(), 1)
		// all spelling pairs, rotating
		s1, s2 := spellings[v%len(spellings)], spellings[(v/len(spellings))%len(spellings)]
		args := []string{"sort"}
		args = append(append(args, s1.toks...), "a")
		args = append(append(args, s2.toks...), "b")
		ev2.evalCLI(main2, args, []kind{s1.k, s2.k}, in, ";")
		w.AddSet("cli-spelling-pairs", s1.String()+" + "+s2.String())
	}
	ev.st.pairs += ev2.st.pairs
	ev.st.undetermined += ev2.st.undetermined
	ev.st.strict += ev2.st.strict
	ev.st.ties += ev2.st.ties
	ev.st.tieReordered += ev2.st.tieReordered
	flushStats(w, "cli:", &ev.st)
	if w.Shard == 0 {
		w.Sample(map[string]any{"worker": "cli", "command": "mlr sort -t -r k", "stdin": "k=a10,i=0\\ni=1,k=a9\\nk=,i=2", "max_len": maxLen})
	}
}
