package c09

// Two further dimensions of the verb's input space (added after two realistic
// property-breaking changes went unseen):
//
//  1. KEY-NAME ASSIGNMENT x RECORD SHAPE (worker "names"). The other passes give
//     every key slot its own field name and every record an index field, so the
//     number of fields of a record always exceeds the number of key slots and
//     the key fields always stand in key-list order. Here the map from key slots
//     to field names is ANY function (all set partitions of 1..3 slots: a | aa ab
//     | aaa aab aba abb abc - the tie-break idiom `sort -c name -f name` is "aa"),
//     and every record independently takes one of the shapes bare (key fields
//     only: narrower than or as wide as the key list), +i, +i+z, and +i with the
//     key fields in reverse key-list order.
//     Oracle: unchanged (checkSorted). A record "has all specified sort keys"
//     when it has every NAMED field, however often named; the chain compares
//     slot k of two records under flag k ("sorts records primarily by the first
//     specified field, secondarily by the second field, and so on").
//
//  2. TIES ON AN EARLIER KEY, FOR EVERY SYMBOL (worker "tie"). A later key is
//     consulted only when the comparator of the earlier key answers 0; the
//     other multi-key passes draw the earlier key from a reduced alphabet (the
//     quick tier's has no empty value). Here every symbol x of the one-key
//     alphabet K1 (every value class and spelling) is the value of the first
//     key (of the first two keys) of ALL records, under every comparator kind,
//     and the last key alone must order the records.

import (
	"fmt"
	"strings"

	"verif/harness/vf"
)

// ---------------------------------------------------------------- layouts

var shapeNames = []string{"bare", "i", "zi", "reversed+i"}

const (
	shBare = iota // key fields only
	shI           // + index field i (first on odd records, last on even ones)
	shZI          // + i and a constant field z on the opposite side
	shRevI        // + i, key fields in reverse key-list order
)

// layout maps key slots onto field names; partition "aab" = slots 1,2 -> a, slot 3 -> b.
type layout struct {
	partition string
	slotNames []string // field name of each slot
	distinct  []string // distinct field names in first-use order
	firstSlot []int    // for each distinct name, the first slot naming it
}

func newLayout(partition string) *layout {
	l := &layout{partition: partition}
	for i := 0; i < len(partition); i++ {
		n := partition[i : i+1]
		l.slotNames = append(l.slotNames, n)
		known := false
		for _, d := range l.distinct {
			known = known || d == n
		}
		if !known {
			l.distinct = append(l.distinct, n)
			l.firstSlot = append(l.firstSlot, i)
		}
	}
	return l
}

// fields lays out record j: tuple is per SLOT (slots sharing a name hold the same symbol).
func (l *layout) fields(j int, tuple []sym, shape int) (keys, vals []string) {
	add := func(k, v string) { keys, vals = append(keys, k), append(vals, v) }
	odd := j%2 == 1
	if shape != shBare && odd {
		add("i", fmt.Sprint(j))
	}
	if shape == shZI && !odd {
		add("z", "0")
	}
	nd := len(l.distinct)
	for x := 0; x < nd; x++ {
		d := x
		if shape == shRevI {
			d = nd - 1 - x
		}
		if s := tuple[l.firstSlot[d]]; !s.missing {
			add(l.distinct[d], s.text)
		}
	}
	if shape != shBare && !odd {
		add("i", fmt.Sprint(j))
	}
	if shape == shZI && odd {
		add("z", "0")
	}
	return
}

// partitions of 1..3 key slots (restricted-growth strings)
var partitions = []string{"a", "aa", "ab", "aaa", "aab", "aba", "abb", "abc"}

// value alphabets per distinct field name. One name: every class, plus pairs
// that tie under one collation and differ under another (1/1.0: numeric vs
// lexical; Ab/ab: case-folded vs lexical; a9/a10: natural vs lexical) - the
// reason for naming a field twice. Several names: reduced.
func nameAlphabets(partition string) [][]sym {
	nd := len(newLayout(partition).distinct)
	switch nd {
	case 1:
		return [][]sym{{num("1", 1), num("1.0", 1), str("a9"), str("a10"), str("Ab"), str("ab"), str(""), missingSym}}
	case 2:
		return [][]sym{{num("1", 1), num("1.0", 1), str("Ab"), str("ab"), missingSym}, {num("2", 2), str("b"), missingSym}}
	}
	return [][]sym{{num("1", 1), str("Ab"), missingSym}, {num("2", 2), str("b"), missingSym}, {num("3", 3), missingSym}}
}

// one record of the enumeration: a value per distinct name and a shape
type nrec struct {
	vals  []sym
	shape int
}

func nameRecords(l *layout) []nrec {
	alph := nameAlphabets(l.partition)
	shapes := []int{shBare, shI, shZI}
	if len(l.distinct) > 1 {
		shapes = append(shapes, shRevI) // with one name it coincides with shI
	}
	var out []nrec
	cur := make([]sym, len(alph))
	var rec func(d int)
	rec = func(d int) {
		if d == len(alph) {
			for _, sh := range shapes {
				out = append(out, nrec{append([]sym{}, cur...), sh})
			}
			return
		}
		for _, s := range alph[d] {
			cur[d] = s
			rec(d + 1)
		}
	}
	rec(0)
	return out
}

// slotTuple expands a record's per-name values to per-slot values.
func (l *layout) slotTuple(r nrec) []sym {
	t := make([]sym, len(l.slotNames))
	for s, n := range l.slotNames {
		for d, dn := range l.distinct {
			if dn == n {
				t[s] = r.vals[d]
			}
		}
	}
	return t
}

// the reduced comparator-kind set for three slots in the quick tier: one of each collation, both directions present
var kinds4 = []kind{kLexA, kCfD, kNumD, kNatA}

var allKinds = []kind{kLexA, kLexD, kCfA, kCfD, kNumA, kNumD, kNatA, kNatD}

// kindSeqs: all sequences of length n over ks.
func kindSeqs(ks []kind, n int) [][]kind {
	out := [][]kind{{}}
	for i := 0; i < n; i++ {
		var next [][]kind
		for _, p := range out {
			for _, k := range ks {
				next = append(next, append(append([]kind{}, p...), k))
			}
		}
		out = next
	}
	return out
}

func sortArgs(ks []kind, names []string) []string {
	args := []string{"sort"}
	for i, k := range ks {
		args = append(append(args, spellings[k].toks...), names[i])
	}
	return args
}

// the kind triples run through the command line for three slots (each kind three times)
var cliTriples = [][]kind{
	{kCfA, kLexA, kNumD}, {kNumA, kLexA, kNatD}, {kNatA, kLexD, kCfA}, {kLexD, kCfD, kNumA},
	{kCfD, kNatA, kLexA}, {kNumD, kNumA, kLexA}, {kNatD, kCfA, kNumD}, {kLexA, kNatD, kCfD},
}

// ---------------------------------------------------------------- worker "names"

func namesWorker(w *vf.Worker) {
	quick := w.Quick()
	var idx uint64
	for _, part := range partitions {
		lay := newLayout(part)
		recs := nameRecords(lay)
		tuples := make([][]sym, len(recs))
		for i, r := range recs {
			tuples[i] = lay.slotTuple(r)
		}
		nslots := len(lay.slotNames)
		// bounds: list length and comparator-kind sequences per length
		maxLen := 2
		if nslots <= 2 && part != "ab" {
			maxLen = 3
		}
		full := kindSeqs(allKinds, nslots)
		kindsFor := func(L int) [][]kind { return full }
		if nslots == 3 && part != "aaa" && quick {
			reduced := kindSeqs(kinds4, 3)
			kindsFor = func(L int) [][]kind { return reduced }
		}
		if !quick {
			switch {
			case part == "a" || part == "aa":
				maxLen = 4
			case part == "ab":
				maxLen = 3
			case part == "aaa":
				maxLen = 3
				reduced := kindSeqs(kinds4, 3)
				kindsFor = func(L int) [][]kind {
					if L == 3 {
						return reduced
					}
					return full
				}
			}
		}
		ev := &verbEval{w: w, names: lay.slotNames, lay: lay, shapes: make([]int, 8)}
		in := make([][]sym, 0, 8)
		var shapeHits [4]int64
		var narrow, cases int64
		// block size: about 4000 evaluations per Mine index
		bs := 4000 / len(full)
		if bs < 1 {
			bs = 1
		}
		blocks(w, &idx, len(recs), maxLen, bs, "sort "+part, func(list []int) {
			in = in[:0]
			isNarrow := false
			for j, x := range list {
				in = append(in, tuples[x])
				ev.shapes[j] = recs[x].shape
				shapeHits[recs[x].shape]++
				// narrower than the key list although every key is present
				if !hasMissing(tuples[x]) {
					ks, _ := lay.fields(j, tuples[x], recs[x].shape)
					isNarrow = isNarrow || len(ks) < nslots
				}
			}
			for _, ks := range kindsFor(len(list)) {
				ev.eval("names", sortArgs(ks, lay.slotNames), ks, in)
				cases++
				if isNarrow {
					narrow++
				}
			}
		})
		for s, n := range shapeHits {
			if n != 0 {
				w.Count("names:shape:"+shapeNames[s], n)
			}
		}
		w.Count("names:partition:"+part, cases)
		w.Count("names:cases_with_a_record_having_all_keys_but_fewer_fields_than_key_slots", narrow)
		flushStats(w, "names:", &ev.st)

		// ---- the same through the command line (DKVP), lists of length <= 2
		if part == "a" || part == "ab" || part == "abc" {
			continue // distinct names through the command line: worker "cli"
		}
		cliKinds := full
		if nslots == 3 {
			cliKinds = cliTriples
		}
		evc := &verbEval{w: w, names: lay.slotNames, lay: lay, shapes: make([]int, 8)}
		blocks(w, &idx, len(recs), 2, 16, "cli sort "+part, func(list []int) {
			in = in[:0]
			for j, x := range list {
				ks, _ := lay.fields(j, tuples[x], recs[x].shape)
				if len(ks) == 0 {
					return // a record without fields cannot be written as a DKVP line
				}
				in = append(in, tuples[x])
				evc.shapes[j] = recs[x].shape
			}
			for _, ks := range cliKinds {
				evc.evalCLI(nil, sortArgs(ks, lay.slotNames), ks, in, ",")
				w.Count("names:cli:partition:"+part, 1)
			}
			// comma-list spelling `-c a,a`: one flag for all slots; every kind for the
			// one-name partitions, one kind per list (rotating with the list's symbol numbers) for the others
			rot := len(list)
			for _, x := range list {
				rot += x
			}
			for ki, k := range allKinds {
				if len(lay.distinct) > 1 && ki != rot%len(allKinds) {
					continue
				}
				chain := make([]kind, nslots)
				for i := range chain {
					chain[i] = k
				}
				args := append(append([]string{"sort"}, spellings[k].toks...), strings.Join(lay.slotNames, ","))
				evc.evalCLI(nil, args, chain, in, ",")
				w.Count("names:cli:comma-list", 1)
			}
		})
		flushStats(w, "names:cli:", &evc.st)

		// ---- single-column CSV (every record exactly one field wide), one-name partitions
		if len(lay.distinct) == 1 {
			csvPass(w, &idx, lay, cliKinds)
		}
	}
	if w.Shard == 0 {
		w.Sample(map[string]any{"worker": "names", "command": "mlr sort -c a -f a", "input": "a=ab / i=1,a=Ab / z=0,a=1.0,i=2", "partitions": partitions, "shapes": shapeNames})
	}
}

// csvPass: `mlr --csv sort <flags> name ...` on a one-column file; values over
// the non-empty symbols of the one-name alphabet, lists of length <= 3.
func csvPass(w *vf.Worker, idx *uint64, lay *layout, chains [][]kind) {
	var V []sym
	for _, s := range nameAlphabets(lay.partition)[0] {
		if !s.missing && s.text != "" {
			V = append(V, s)
		}
	}
	names := make([]string, len(lay.slotNames))
	for i := range names {
		names[i] = "name"
	}
	var st orderStats
	nviol := 0
	blocks(w, idx, len(V), 3, 8, "csv sort "+lay.partition, func(list []int) {
		in := make([][]sym, len(list))
		text := "name\n"
		for j, x := range list {
			t := make([]sym, len(names))
			for s := range t {
				t[s] = V[x]
			}
			in[j] = t
			text += V[x].text + "\n"
		}
		for _, ks := range chains {
			args := append([]string{"--csv"}, sortArgs(ks, names)...)
			r := vf.RunMlr(args, vf.MlrOpts{Stdin: &text})
			w.Eval(1)
			w.Count("names:csv:partition:"+lay.partition, 1)
			cmd := "mlr " + strings.Join(args, " ")
			key := fmt.Sprintf("csv-sort-%%s:%s:%s", strings.Join(args[2:], " "), listText(in))
			replay := map[string]any{"command": cmd, "stdin": text, "stdout": r.Stdout, "stderr": r.Stderr}
			fail := func(cls, what string) {
				nviol++
				if nviol > 40 {
					w.Count("violations_counted_not_listed:csv-sort-"+cls, 1)
					return
				}
				w.Violation(fmt.Sprintf(key, cls), what, replay)
			}
			if !r.OK() {
				fail("exit", fmt.Sprintf("%s fails: %s", cmd, r.String()))
				continue
			}
			var outLines []string
			if r.Stdout != "" {
				outLines = strings.Split(strings.TrimSuffix(r.Stdout, "\n"), "\n")
			}
			if len(list) == 0 {
				// no records: the docs do not say whether a header is printed
				continue
			}
			if len(outLines) == 0 || outLines[0] != "name" {
				fail("changed", fmt.Sprintf("%s: header line missing or changed: stdout %q", cmd, r.Stdout))
				continue
			}
			unmatched := map[string][]int{}
			for j, x := range list {
				unmatched[V[x].text] = append(unmatched[V[x].text], j)
			}
			var out []int
			bad := false
			for _, l := range outLines[1:] {
				q := unmatched[l]
				if len(q) == 0 {
					fail("changed", fmt.Sprintf("%s: output line %q is not an (unmatched) input line; stdout %q", cmd, l, r.Stdout))
					bad = true
					break
				}
				out, unmatched[l] = append(out, q[0]), q[1:]
			}
			if bad {
				continue
			}
			before := st.strict
			if cls, what := checkSorted(ks, in, out, &st); cls != "" {
				fail(cls, fmt.Sprintf("%s on %s: %s", cmd, listText(in), what))
				continue
			}
			if st.strict > before {
				w.Nontrivial(1)
			}
		}
	})
	flushStats(w, "names:csv:", &st)
}

// ---------------------------------------------------------------- worker "tie"

// second-key alphabet of the tie pass: strictly ordered under every collation
// (lexical and case-folded: "10" < "2" < "b"; numeric and natural: 2 < 10 < b)
func alphaTie() []sym { return []sym{num("2", 2), num("10", 10), str("b")} }

func tieWorker(w *vf.Worker) {
	var K []sym
	for _, s := range alphaK1() {
		if !s.missing {
			K = append(K, s)
		}
	}
	B := alphaTie()
	len2, len3 := 4, 3
	if !w.Quick() {
		len2, len3 = 5, 4
	}
	var idx uint64
	symHits := newCounters(symNames(K))
	var kindHits [nKinds]int64
	// ---- two keys: a = x on every record, b decides
	ev := &verbEval{w: w, names: keyNames[:2]}
	pairs := kindSeqs(allKinds, 2)
	for xi, x := range K {
		in := make([][]sym, 0, 8)
		blocks(w, &idx, len(B), len2, 128, "sort two keys, first key "+symNames(K)[xi]+" on all records", func(list []int) {
			in = in[:0]
			for _, y := range list {
				in = append(in, []sym{x, B[y]})
			}
			for _, ks := range pairs {
				ev.eval("tie2", sortArgs(ks, keyNames[:2]), ks, in)
				kindHits[ks[0]]++
			}
			symHits.vals[xi]++
		})
	}
	flushStats(w, "tie2:", &ev.st)
	// ---- three keys: a = b = x on every record, c decides
	ev3 := &verbEval{w: w, names: keyNames[:3]}
	triples := kindSeqs(allKinds, 3)
	for xi, x := range K {
		in := make([][]sym, 0, 8)
		blocks(w, &idx, len(B), len3, 8, "sort three keys, first two keys "+symNames(K)[xi]+" on all records", func(list []int) {
			in = in[:0]
			for _, y := range list {
				in = append(in, []sym{x, x, B[y]})
			}
			for _, ks := range triples {
				ev3.eval("tie3", sortArgs(ks, keyNames[:3]), ks, in)
				kindHits[ks[0]]++
				kindHits[ks[1]]++
			}
			symHits.vals[xi]++
		})
	}
	flushStats(w, "tie3:", &ev3.st)
	symHits.flush(w, "tie:symbol:")
	for k := kind(0); k < nKinds; k++ {
		w.Count("tie:tying-kind:"+k.String(), kindHits[k])
	}
	if w.Shard == 0 {
		w.Sample(map[string]any{"worker": "tie", "command": "mlr sort -t a -nr b", "input": "a=,b=2,i=0 / i=1,a=,b=b / a=,b=10,i=2", "tying_symbols": symNames(K), "deciding_key_alphabet": symNames(B)})
	}
}
