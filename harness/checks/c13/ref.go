package c13

// Reference model for `mlr join`, written from `mlr join --help`,
// reference-verbs.md#join and questions-about-joins.md. It shares no code with
// Miller: records are plain ordered lists of (name, text) pairs and the join is
// a nested loop over the right stream and the left file.

import (
	"encoding/json"
	"fmt"
	"io"
	"sort"
	"strings"
)

type fld struct{ K, V string }
type rec []fld

func (r rec) get(k string) (string, bool) {
	for _, f := range r {
		if f.K == k {
			return f.V, true
		}
	}
	return "", false
}

// put has ordered-map semantics: an existing name keeps its position and takes
// the new value (questions-about-joins.md: "the value from the right file
// overwrites the value from the left file ... the output columns are exactly
// the database file's columns, in the database file's order").
func (r rec) put(k, v string) rec {
	for i := range r {
		if r[i].K == k {
			r[i].V = v
			return r
		}
	}
	return append(r, fld{k, v})
}

func (r rec) canon() string {
	var b strings.Builder
	for i, f := range r {
		if i > 0 {
			b.WriteByte(0x02)
		}
		b.WriteString(f.K)
		b.WriteByte(0x01)
		b.WriteString(f.V)
	}
	return b.String()
}

func (r rec) String() string {
	var b strings.Builder
	b.WriteByte('{')
	for i, f := range r {
		if i > 0 {
			b.WriteByte(',')
		}
		b.WriteString(f.K)
		b.WriteByte('=')
		b.WriteString(f.V)
	}
	b.WriteByte('}')
	return b.String()
}

func recsString(rs []rec) string {
	s := make([]string, len(rs))
	for i, r := range rs {
		s[i] = r.String()
	}
	return strings.Join(s, " ")
}

// joinOpts are the verb's options as the usage text names them.
type joinOpts struct {
	lj, rj, oj []string // -l, -r, -j (after defaulting -l/-r to -j)
	lp, rp     string   // --lp, --rp
	hasLk      bool     // --lk given
	lk         []string // --lk names (join fields are included automatically)
	np, ul, ur bool
	ie         bool // --ignore-empty
}

type okind int

const (
	kPaired okind = iota
	kLeftUnpaired
	kRightUnpaired
)

type orec struct {
	r    rec
	kind okind
	li   int // index into the left list, -1 if none
	ri   int // index into the right list, -1 if none
}

func inList(s string, l []string) bool {
	for _, x := range l {
		if x == s {
			return true
		}
	}
	return false
}

// keyOf returns the join-field texts of r, and whether r can be paired at all:
// every join field present and, under --ignore-empty, none empty.
func keyOf(r rec, names []string, ignoreEmpty bool) ([]string, bool) {
	out := make([]string, len(names))
	for i, n := range names {
		v, ok := r.get(n)
		if !ok {
			return nil, false
		}
		if ignoreEmpty && v == "" {
			return nil, false
		}
		out[i] = v
	}
	return out, true
}

func eqKeys(a, b []string) bool {
	for i := range a {
		if a[i] != b[i] {
			return false
		}
	}
	return true
}

func unpairedRec(r rec, names, outNames []string, prefix string) rec {
	var out rec
	for _, f := range r {
		renamed := false
		for i, n := range names {
			if f.K == n {
				out = out.put(outNames[i], f.V)
				renamed = true
				break
			}
		}
		if !renamed {
			out = out.put(prefix+f.K, f.V)
		}
	}
	if out == nil {
		out = rec{}
	}
	return out
}

// refJoin is the nested-loop reference for the default (unsorted) mode. The
// relative order of left-unpaired records is not fixed by the documentation;
// the model lists them in left-file order and callers compare them as a
// multiset.
func refJoin(L, R []rec, o joinOpts) []orec {
	// --lk: "keep only the specified field names from the left file.
	// Automatically includes the join-field name(s)."
	left := L
	if o.hasLk {
		left = make([]rec, len(L))
		for i, l := range L {
			kept := rec{}
			for _, f := range l {
				if inList(f.K, o.lk) || inList(f.K, o.lj) {
					kept = append(kept, f)
				}
			}
			left[i] = kept
		}
	}
	lkeys := make([][]string, len(left))
	lok := make([]bool, len(left))
	for i, l := range left {
		lkeys[i], lok[i] = keyOf(l, o.lj, o.ie)
	}
	paired := make([]bool, len(left))
	var out []orec
	for ri, r := range R {
		rkey, rok := keyOf(r, o.rj, o.ie)
		matched := false
		if rok {
			for li, l := range left {
				if !lok[li] || !eqKeys(lkeys[li], rkey) {
					continue
				}
				matched = true
				paired[li] = true
				if o.np {
					continue
				}
				// join fields under their output names, then left non-join
				// fields, then right non-join fields
				p := rec{}
				for i, n := range o.lj {
					v, _ := l.get(n)
					p = p.put(o.oj[i], v)
				}
				for _, f := range l {
					if !inList(f.K, o.lj) {
						p = p.put(o.lp+f.K, f.V)
					}
				}
				for _, f := range r {
					if !inList(f.K, o.rj) {
						p = p.put(o.rp+f.K, f.V)
					}
				}
				out = append(out, orec{p, kPaired, li, ri})
			}
		}
		if !matched && o.ur {
			out = append(out, orec{unpairedRec(r, o.rj, o.oj, o.rp), kRightUnpaired, -1, ri})
		}
	}
	if o.ul {
		for li, l := range left {
			if !paired[li] {
				out = append(out, orec{unpairedRec(l, o.lj, o.oj, o.lp), kLeftUnpaired, li, -1})
			}
		}
	}
	return out
}

// ---------------------------------------------------------------- output parsing

// parseJSONL reads Miller's --ojsonl --jvquoteall output with the standard
// library's tokenizer (order of keys preserved). Only flat records of scalars
// are expected.
func parseJSONL(s string) ([]rec, error) {
	dec := json.NewDecoder(strings.NewReader(s))
	dec.UseNumber()
	var out []rec
	for {
		t, err := dec.Token()
		if err == io.EOF {
			return out, nil
		}
		if err != nil {
			return out, err
		}
		if d, ok := t.(json.Delim); !ok || d != '{' {
			return out, fmt.Errorf("expected '{', got %v", t)
		}
		r := rec{}
		for dec.More() {
			kt, err := dec.Token()
			if err != nil {
				return out, err
			}
			k, ok := kt.(string)
			if !ok {
				return out, fmt.Errorf("non-string key %v", kt)
			}
			vt, err := dec.Token()
			if err != nil {
				return out, err
			}
			var v string
			switch x := vt.(type) {
			case string:
				v = x
			case json.Number:
				v = x.String()
			case bool:
				v = fmt.Sprint(x)
			case nil:
				v = "null"
			default:
				return out, fmt.Errorf("non-scalar value for key %q", k)
			}
			for _, f := range r {
				if f.K == k {
					return out, fmt.Errorf("duplicate key %q in one output record", k)
				}
			}
			r = append(r, fld{k, v})
		}
		if _, err := dec.Token(); err != nil { // '}'
			return out, err
		}
		out = append(out, r)
	}
}

func canonMultiset(rs []rec) []string {
	out := make([]string, len(rs))
	for i, r := range rs {
		out[i] = r.canon()
	}
	sort.Strings(out)
	return out
}

func eqStrings(a, b []string) bool {
	if len(a) != len(b) {
		return false
	}
	for i := range a {
		if a[i] != b[i] {
			return false
		}
	}
	return true
}

// ---------------------------------------------------------------- input writers

func writeDKVP(rs []rec, ifs string) string {
	var b strings.Builder
	for _, r := range rs {
		for i, f := range r {
			if i > 0 {
				b.WriteString(ifs)
			}
			b.WriteString(f.K)
			b.WriteByte('=')
			b.WriteString(f.V)
		}
		b.WriteByte('\n')
	}
	return b.String()
}

func isPlainNumber(s string) bool {
	if s == "" || (len(s) > 1 && s[0] == '0') {
		return false
	}
	for _, c := range s {
		if c < '0' || c > '9' {
			return false
		}
	}
	return true
}

// writeJSON writes a JSON list of objects; decimal integers without leading
// zeros go out as JSON numbers, everything else as JSON strings.
func writeJSON(rs []rec) string {
	var b strings.Builder
	b.WriteString("[\n")
	for i, r := range rs {
		b.WriteString("{")
		for j, f := range r {
			if j > 0 {
				b.WriteString(", ")
			}
			kb, _ := json.Marshal(f.K)
			b.Write(kb)
			b.WriteString(": ")
			if isPlainNumber(f.V) {
				b.WriteString(f.V)
			} else {
				vb, _ := json.Marshal(f.V)
				b.Write(vb)
			}
		}
		b.WriteString("}")
		if i < len(rs)-1 {
			b.WriteString(",")
		}
		b.WriteString("\n")
	}
	b.WriteString("]\n")
	return b.String()
}

// homogeneous reports whether every record has the same field names in the
// same order (the precondition for writing the list as one CSV table).
func homogeneous(rs []rec) bool {
	for _, r := range rs[1:] {
		if len(r) != len(rs[0]) {
			return false
		}
		for i := range r {
			if r[i].K != rs[0][i].K {
				return false
			}
		}
	}
	return true
}

func writeCSV(rs []rec) string {
	if len(rs) == 0 {
		return ""
	}
	var b strings.Builder
	for i, f := range rs[0] {
		if i > 0 {
			b.WriteByte(',')
		}
		b.WriteString(f.K)
	}
	b.WriteByte('\n')
	for _, r := range rs {
		for i, f := range r {
			if i > 0 {
				b.WriteByte(',')
			}
			b.WriteString(f.V)
		}
		b.WriteByte('\n')
	}
	return b.String()
}

// ---------------------------------------------------------------- sortedness

// sortedness of a record list with respect to join-field names, as -s
// documents it ("sorted lexically" = ascending byte-wise string comparison,
// field by field). Records lacking a join field have no sort key:
//
//	strict: they all come after every keyed record (what `mlr sort -f` yields)
//	loose:  they may sit anywhere
//
// Empty-string keys are ordinary (smallest) keys for this purpose.
func sortedness(rs []rec, names []string) (strict, loose bool) {
	strict, loose = true, true
	var prev []string
	seenKeyless := false
	for _, r := range rs {
		k, ok := keyOf(r, names, false)
		if !ok {
			seenKeyless = true
			continue
		}
		if seenKeyless {
			strict = false
		}
		if prev != nil {
			for i := range k {
				c := strings.Compare(prev[i], k[i])
				if c < 0 {
					break
				}
				if c > 0 {
					strict, loose = false, false
					break
				}
			}
		}
		prev = k
	}
	return
}
