// Package c13: check for property C13 (see /verif/DESIGN.md §3 C13).
package c13
