// Package c13: join pairs exactly the matching records and accounts for every
// record once (DESIGN.md §3 C13, E2 part). Bounded exhaustive enumeration of
// (left file, right stream, option set) on the real code through the whole CLI
// (vf.RunMlr), against a nested-loop reference join written from the usage
// text (ref.go) plus model-free laws on record identities.
package c13

import (
	"fmt"
	"os"
	"sort"
	"strconv"
	"strings"

	"verif/harness/vf"
)

func init() {
	vf.Register(&vf.CheckDef{ID: "C13", Level: "model_checking", Run: run,
		Workers: map[string]vf.WorkerFunc{"grid": gridWorker}})
}

// ---------------------------------------------------------------- alphabet

const missing = "\x00" // the join field is absent from the record

func symName(s string) string {
	switch s {
	case missing:
		return "M"
	case "":
		return "E"
	}
	return s
}

type tuple []string // one text (or missing) per join field

func (t tuple) String() string {
	if len(t) == 0 {
		return "*"
	}
	s := make([]string, len(t))
	for i, v := range t {
		s[i] = symName(v)
	}
	return strings.Join(s, "+")
}

func tuplesString(ts []tuple) string {
	s := make([]string, len(ts))
	for i, t := range ts {
		s[i] = t.String()
	}
	return "[" + strings.Join(s, " ") + "]"
}

// all sequences over alpha of length 0..maxLen, by length then lexicographic
func sequences(alpha []tuple, maxLen int) [][]tuple {
	out := [][]tuple{{}}
	prev := [][]tuple{{}}
	for n := 1; n <= maxLen; n++ {
		var cur [][]tuple
		for _, p := range prev {
			for _, a := range alpha {
				s := append(append([]tuple{}, p...), a)
				cur = append(cur, s)
			}
		}
		out = append(out, cur...)
		prev = cur
	}
	return out
}

// ---------------------------------------------------------------- option dimensions

type naming struct {
	name       string
	lj, rj, oj []string
	flags      []string
}

type pvar struct {
	name       string
	flags      []string
	lp, rp     string
	hasLk      bool
	lk         []string
	lidVisible bool
}

type emit struct {
	name       string
	np, ul, ur bool
	flags      []string
}

var emits = []emit{
	{"paired", false, false, false, nil},
	{"ul", false, true, false, []string{"--ul"}},
	{"ur", false, false, true, []string{"--ur"}},
	{"ul+ur", false, true, true, []string{"--ul", "--ur"}},
	{"np+ul", true, true, false, []string{"--np", "--ul"}},
	{"np+ur", true, false, true, []string{"--np", "--ur"}},
	{"np+ul+ur", true, true, true, []string{"--np", "--ul", "--ur"}},
}

const eFull = 3 // index of --ul --ur

var pvarsAll = []pvar{
	{name: "p0", lidVisible: true},
	{name: "lp", flags: []string{"--lp", "L_"}, lp: "L_", lidVisible: true},
	{name: "rp", flags: []string{"--rp", "R_"}, rp: "R_", lidVisible: true},
	{name: "lp+rp", flags: []string{"--lp", "L_", "--rp", "R_"}, lp: "L_", rp: "R_", lidVisible: true},
	{name: "lk-lid", flags: []string{"--lk", "lid"}, hasLk: true, lk: []string{"lid"}, lidVisible: true},
	{name: "lk-empty", flags: []string{"--lk", ""}, hasLk: true, lk: nil, lidVisible: false},
	// thorough only:
	{name: "lk-lid,v+lp", flags: []string{"--lk", "lid,v", "--lp", "L_"}, lp: "L_", hasLk: true, lk: []string{"lid", "v"}, lidVisible: true},
	{name: "lk-alias-v", flags: []string{"--left-keep-field-names", "v"}, hasLk: true, lk: []string{"v"}, lidVisible: false},
}

var namings1 = []naming{
	{"j", []string{"k"}, []string{"k"}, []string{"k"}, []string{"-j", "k"}},
	{"lrj", []string{"k"}, []string{"k2"}, []string{"out"}, []string{"-l", "k", "-r", "k2", "-j", "out"}},
	// one-sided renaming: only the right (jr) or only the left (jl) join-field name differs from the output name
	{"jr", []string{"k"}, []string{"k2"}, []string{"k"}, []string{"-j", "k", "-r", "k2"}},
	{"jl", []string{"k2"}, []string{"k"}, []string{"k"}, []string{"-j", "k", "-l", "k2"}},
}

var namings2 = []naming{
	{"j2", []string{"k", "m"}, []string{"k", "m"}, []string{"k", "m"}, []string{"-j", "k,m"}},
	{"lrj2", []string{"k", "m"}, []string{"k2", "m2"}, []string{"o1", "o2"}, []string{"-l", "k,m", "-r", "k2,m2", "-j", "o1,o2"}},
}

var namings0 = []naming{
	{"j0", []string{}, []string{}, []string{}, []string{"-j", ""}},
}

// ---------------------------------------------------------------- input construction

// Left record i:  lid=L<i>, <join fields that are present>, v=a<i> [, x=p<i> when i==1 and hetero]
// Right record i: rid=R<i>, v=A<i> [, x=q<i> when i==0 and hetero], <join fields that are present>
// "v" collides on every pair, "x" on some; lid/rid are unique identities.

// placeKeys inserts the present join fields into base at a position that
// depends on slot: 0 = first, 1 = after the id field, 2 = last.
func placeKeys(base rec, t tuple, names []string, slot int) rec {
	var keys rec
	for j, n := range names {
		if t[j] != missing {
			keys = append(keys, fld{n, t[j]})
		}
	}
	at := len(base)
	switch slot {
	case 0:
		at = 0
	case 1:
		at = 1
	}
	out := append(rec{}, base[:at]...)
	out = append(out, keys...)
	return append(out, base[at:]...)
}

// rotate=false: the left join fields sit after lid, the right ones last.
// rotate=true: the position varies from record to record (left: first / after
// lid / last by i mod 3; right: shifted by one), so records of one file carry
// the join field at different positions.
func buildLeft(ts []tuple, names []string, hetero, rotate bool) []rec {
	out := make([]rec, len(ts))
	for i, t := range ts {
		base := rec{{"lid", fmt.Sprintf("L%d", i)}, {"v", fmt.Sprintf("a%d", i)}}
		if hetero && i == 1 {
			base = append(base, fld{"x", fmt.Sprintf("p%d", i)})
		}
		slot := 1
		if rotate {
			slot = i % 3
		}
		out[i] = placeKeys(base, t, names, slot)
	}
	return out
}

func buildRight(ts []tuple, names []string, hetero, rotate bool) []rec {
	out := make([]rec, len(ts))
	for i, t := range ts {
		base := rec{{"rid", fmt.Sprintf("R%d", i)}, {"v", fmt.Sprintf("A%d", i)}}
		if hetero && i == 0 {
			base = append(base, fld{"x", fmt.Sprintf("q%d", i)})
		}
		slot := 2
		if rotate {
			slot = (i + 1) % 3
		}
		out[i] = placeKeys(base, t, names, slot)
	}
	return out
}

// ---------------------------------------------------------------- families

type family struct {
	name    string
	alpha   []tuple
	maxLen  int
	must    string // when non-empty: only pairs in which this symbol occurs (the rest is covered by another family)
	names   []naming
	pv      [][]pvar // prefix/keep variants per naming (aligned with names)
	ifs     string   // "," or ";"
	formats bool     // also run the left-file format passes
	sThin   bool     // -s on unsorted inputs only for the first naming / first pvar
	// sortedOnly: only lists that are sorted by the key (key-less records anywhere); longer lists for the -s merge
	sortedOnly bool
	maxTotal   int  // when > 0: only pairs with len(L)+len(R) <= maxTotal
	noIE       bool // the alphabet has no empty value: --ignore-empty is not varied
	rotate     bool // the join field's position varies from record to record within each file
}

func t1(vals ...string) []tuple {
	out := make([]tuple, len(vals))
	for i, v := range vals {
		out[i] = tuple{v}
	}
	return out
}

func families(quick bool) []family {
	k4 := t1("1", "2", "", missing)
	k5 := t1("1", "2", "", missing, "01")
	// two join fields; "1,1"+"1" and "1"+"1,1" are different keys with the same comma-joined text
	t8 := []tuple{{"1", "1"}, {"1", "2"}, {"2", "1"}, {"1", ""}, {"1", missing}, {missing, "1"}, {"1,1", "1"}, {"1", "1,1"}}
	t5 := []tuple{{"1", "1"}, {"1", "2"}, {"2", "1"}, {"1", missing}, {"", "1"}}
	z := []tuple{{}}
	p2 := []pvar{pvarsAll[0], pvarsAll[3]}
	p3 := []pvar{pvarsAll[0], pvarsAll[3], pvarsAll[5]}
	p6 := pvarsAll[:6]
	p1 := pvarsAll[:1]
	k2 := t1("1", "2")
	k3 := t1("1", "2", "3")
	k3m := t1("1", "2", "3", missing)
	p4 := pvarsAll[:4]
	// two join fields whose first value may be a proper prefix of another one with a next byte below ','
	// (space ! +): field-by-field order differs from the order of the comma-joined texts
	var tp []tuple
	for _, k := range []string{"x", "x+y", "x y", "ann", "ann marie", "a", "a!", "b"} {
		tp = append(tp, tuple{k, "1"})
	}
	tp = append(tp, tuple{"x", "2"}, tuple{"ann", "2"})
	if quick {
		return []family{
			{name: "one", alpha: k4, maxLen: 3, names: namings1[:2], pv: [][]pvar{p6, p3}, ifs: ",", formats: true, sThin: true},
			{name: "one01", alpha: k5, maxLen: 2, must: "01", names: namings1[:2], pv: [][]pvar{p6, p3}, ifs: ",", formats: true, sThin: true},
			{name: "two", alpha: t8, maxLen: 2, names: namings2, pv: [][]pvar{p2, p1}, ifs: ";", sThin: true},
			{name: "zero", alpha: z, maxLen: 3, names: namings0, pv: [][]pvar{p2}, ifs: ","},
			{name: "sorted5", alpha: k3, maxLen: 5, names: namings1[:1], pv: [][]pvar{p1}, ifs: ",", sortedOnly: true, noIE: true},
			{name: "dup4", alpha: k2, maxLen: 4, names: namings1[:2], pv: [][]pvar{p2, p2}, ifs: ",", noIE: true, rotate: true, formats: true},
			{name: "oneside", alpha: k4, maxLen: 2, names: namings1[2:4], pv: [][]pvar{p4, p4}, ifs: ","},
			{name: "sorted2p", alpha: tp, maxLen: 3, maxTotal: 4, names: namings2[:1], pv: [][]pvar{p1}, ifs: ",", sortedOnly: true, noIE: true},
		}
	}
	return []family{
		{name: "one", alpha: k5, maxLen: 3, names: namings1, pv: [][]pvar{pvarsAll, pvarsAll, p4, p4}, ifs: ",", formats: true, sThin: true},
		{name: "two", alpha: t8, maxLen: 2, names: namings2, pv: [][]pvar{p6, p6}, ifs: ";"},
		{name: "two3", alpha: t5, maxLen: 3, names: namings2, pv: [][]pvar{p2, p2}, ifs: ";", sThin: true},
		{name: "zero", alpha: z, maxLen: 3, names: namings0, pv: [][]pvar{p6}, ifs: ","},
		{name: "sorted5", alpha: k3m, maxLen: 5, names: namings1[:1], pv: [][]pvar{p1}, ifs: ",", sortedOnly: true, noIE: true},
		{name: "dup4", alpha: k2, maxLen: 4, names: namings1[:2], pv: [][]pvar{p6, p6}, ifs: ",", noIE: true, rotate: true, formats: true},
		{name: "oneside", alpha: k4, maxLen: 2, names: namings1[2:4], pv: [][]pvar{p6, p6}, ifs: ","},
		{name: "sorted2p", alpha: tp, maxLen: 3, names: namings2, pv: [][]pvar{p1, p1}, ifs: ",", sortedOnly: true, noIE: true},
	}
}

type pairCase struct {
	L, R []tuple
}

func (f *family) pairs() []pairCase {
	seqs := sequences(f.alpha, f.maxLen)
	if f.sortedOnly {
		var keep [][]tuple
		for _, s := range seqs {
			if _, loose := sortedness(buildLeft(s, f.names[0].lj, false, false), f.names[0].lj); loose {
				keep = append(keep, s)
			}
		}
		seqs = keep
	}
	var out []pairCase
	has := func(ts []tuple) bool {
		for _, t := range ts {
			for _, v := range t {
				if v == f.must {
					return true
				}
			}
		}
		return false
	}
	for _, l := range seqs {
		for _, r := range seqs {
			if f.must != "" && !has(l) && !has(r) {
				continue
			}
			if f.maxTotal > 0 && len(l)+len(r) > f.maxTotal {
				continue
			}
			out = append(out, pairCase{l, r})
		}
	}
	// simplest first: total length, then the generation order (stable)
	sort.SliceStable(out, func(i, j int) bool {
		return len(out[i].L)+len(out[i].R) < len(out[j].L)+len(out[j].R)
	})
	return out
}

// ---------------------------------------------------------------- running one invocation

type runner struct {
	w      *vf.Worker
	counts map[string]int64
}

func (rn *runner) count(k string, n int64) { rn.counts[k] += n }

// viol records a violation; with VERIF_C13_DUMP=<file> the key is also appended
// to that file (debugging aid for triage, no effect on the verdict).
func (rn *runner) viol(key, what string, replay any) {
	rn.w.Violation(key, what, replay)
	if p := os.Getenv("VERIF_C13_DUMP"); p != "" {
		if f, err := os.OpenFile(p, os.O_APPEND|os.O_CREATE|os.O_WRONLY, 0644); err == nil {
			fmt.Fprintln(f, key)
			f.Close()
		}
	}
}

type invocation struct {
	args  []string
	lname string
	ltext string
	rtext string
}

func shq(s string) string { return "'" + strings.ReplaceAll(s, "\n", `\n`) + "'" }

func (iv *invocation) shell() string {
	a := make([]string, len(iv.args))
	for i, x := range iv.args {
		if x == "" || strings.ContainsAny(x, " ;\"'") {
			a[i] = "'" + x + "'"
		} else {
			a[i] = x
		}
	}
	return fmt.Sprintf("printf %s > %s; printf %s | mlr %s", shq(iv.ltext), iv.lname, shq(iv.rtext), strings.Join(a, " "))
}

func (iv *invocation) replay(extra map[string]any) map[string]any {
	m := map[string]any{"args": iv.args, "left_file_name": iv.lname, "left_file": iv.ltext, "stdin": iv.rtext, "shell": iv.shell()}
	for k, v := range extra {
		m[k] = v
	}
	return m
}

func (rn *runner) exec(iv *invocation) ([]rec, bool) {
	for _, a := range iv.args {
		if strings.HasPrefix(a, "-") && len(a) > 1 {
			rn.count("flag:"+a, 1)
		}
	}
	r := vf.RunMlr(iv.args, vf.MlrOpts{Stdin: &iv.rtext, Files: vf.VFS{iv.lname: iv.ltext}})
	rn.w.Eval(1)
	if !r.OK() || r.Stderr != "" {
		rn.viol("run-error:"+strings.Join(iv.args, " ")+"|"+iv.ltext+"|"+iv.rtext,
			fmt.Sprintf("`%s` fails: %s", iv.shell(), r.String()), iv.replay(map[string]any{"result": r.String()}))
		return nil, false
	}
	recs, err := parseJSONL(r.Stdout)
	if err != nil {
		rn.viol("run-error:unparseable:"+strings.Join(iv.args, " ")+"|"+iv.ltext+"|"+iv.rtext,
			fmt.Sprintf("`%s`: output is not a sequence of flat JSON records (%v): %q", iv.shell(), err, r.Stdout), iv.replay(map[string]any{"stdout": r.Stdout}))
		return nil, false
	}
	return recs, true
}

// ---------------------------------------------------------------- the grid worker

type groupOut struct {
	ok      bool
	recs    []rec
	iv      *invocation
	modelOK bool     // default-mode output equals the reference as a multiset
	exp     []string // canonical multiset of the reference output
}

func gridWorker(w *vf.Worker) {
	rn := &runner{w: w, counts: map[string]int64{}}
	defer func() {
		for k, v := range rn.counts {
			w.Count(k, v)
		}
	}()
	quick := w.Quick()
	only := os.Getenv("VERIF_C13_FAMILY")
	var idx uint64
	sampled := map[string]bool{}
	for _, fam := range families(quick) {
		fam := fam
		pairs := fam.pairs()
		for _, pc := range pairs {
			idx++
			if only != "" && only != fam.name {
				continue
			}
			if !w.Mine(idx) {
				continue
			}
			w.Begin(idx)
			pc := pc
			w.Label(func() string {
				return fmt.Sprintf("family %s L=%s R=%s", fam.name, tuplesString(pc.L), tuplesString(pc.R))
			})
			rn.block(&fam, pc)
			if !sampled[fam.name] && len(pc.L) >= 2 && len(pc.R) >= 2 {
				sampled[fam.name] = true
				n := fam.names[len(fam.names)-1]
				L, R := buildLeft(pc.L, n.lj, true, fam.rotate), buildRight(pc.R, n.rj, true, fam.rotate)
				w.Sample(map[string]any{"family": fam.name, "left_file": writeDKVP(L, fam.ifs), "right_stream": writeDKVP(R, fam.ifs),
					"example_args": "join " + strings.Join(n.flags, " ") + " --ul --ur --lp L_ -f L.dkvp"})
			}
		}
	}
}

func (rn *runner) symbolCounts(side string, ts []tuple) {
	for _, t := range ts {
		for _, v := range t {
			rn.count("sym:"+side+":"+symName(v), 1)
		}
	}
}

func mainFlags(ifs string) []string {
	a := []string{"--idkvp", "--ojsonl", "--jvquoteall"}
	if ifs != "," {
		a = append(a, "--ifs", ifs)
	}
	return a
}

func buildArgs(ifs string, mode string, e *emit, ie bool, n *naming, p *pvar, leftFmt, lname string) []string {
	a := mainFlags(ifs)
	a = append(a, "join")
	if mode != "" {
		a = append(a, mode)
	}
	a = append(a, e.flags...)
	if ie {
		a = append(a, "--ignore-empty")
	}
	a = append(a, n.flags...)
	a = append(a, p.flags...)
	if leftFmt != "" {
		a = append(a, "-i", leftFmt)
	}
	a = append(a, "-f", lname)
	return a
}

func mkOpts(n *naming, p *pvar, e *emit, ie bool) joinOpts {
	return joinOpts{lj: n.lj, rj: n.rj, oj: n.oj, lp: p.lp, rp: p.rp, hasLk: p.hasLk, lk: p.lk, np: e.np, ul: e.ul, ur: e.ur, ie: ie}
}

func caseKey(args []string, L, R []tuple) string {
	// the args after "join", without the -f file name
	i := 0
	for i < len(args) && args[i] != "join" {
		i++
	}
	a := append([]string{}, args[i+1:len(args)-2]...)
	for j, x := range a {
		if x == "" {
			a[j] = `""`
		}
	}
	return strings.Join(a, " ") + "|L=" + tuplesString(L) + "|R=" + tuplesString(R)
}

// sortSelfCheck: "sorted by the join keys" is taken as ascending byte-wise
// comparison field by field. Confirm on the real code that `mlr sort -f k -f m`
// puts the family's whole alphabet in exactly that order (otherwise the domain
// predicate of the -s law would be questionable: BROKEN, not a violation).
func (rn *runner) sortSelfCheck(fam *family) {
	n := &fam.names[0]
	alpha := append([]tuple{}, fam.alpha...)
	// worst case input: descending
	sort.SliceStable(alpha, func(i, j int) bool {
		for x := range alpha[i] {
			if c := strings.Compare(alpha[i][x], alpha[j][x]); c != 0 {
				return c > 0
			}
		}
		return false
	})
	in := writeDKVP(buildLeft(alpha, n.lj, false, false), fam.ifs)
	args := append(mainFlags(fam.ifs), "sort")
	for _, f := range n.lj {
		args = append(args, "-f", f)
	}
	r := vf.RunMlr(args, vf.MlrOpts{Stdin: &in})
	recs, err := parseJSONL(r.Stdout)
	if !r.OK() || err != nil {
		rn.w.Broken("sort self-check failed to run: %s", r.String())
		return
	}
	if _, loose := sortedness(recs, n.lj); !loose || len(recs) != len(alpha) {
		rn.w.Broken("`mlr sort -f` does not order the alphabet of family %s byte-wise field by field: %s", fam.name, recsString(recs))
		return
	}
	rn.count("sortcheck:mlr-sort-f-agrees-with-bytewise-tuple-order", 1)
}

func (rn *runner) block(fam *family, pc pairCase) {
	w := rn.w
	if fam.sortedOnly && len(fam.names[0].lj) > 1 && len(pc.L) == 0 && len(pc.R) == 0 {
		rn.sortSelfCheck(fam)
	}
	rn.count("pairs:"+fam.name, 1)
	rn.symbolCounts("L", pc.L)
	rn.symbolCounts("R", pc.R)
	quick := w.Quick()
	ieMax := 2
	if fam.noIE {
		ieMax = 1
	}
	for ni := range fam.names {
		n := &fam.names[ni]
		L, R := buildLeft(pc.L, n.lj, true, fam.rotate), buildRight(pc.R, n.rj, true, fam.rotate)
		ltext, rtext := writeDKVP(L, fam.ifs), writeDKVP(R, fam.ifs)
		ls, ll := sortedness(L, n.lj)
		rs, rl := sortedness(R, n.rj)
		strict, loose := ls && rs, ll && rl
		// some key has a bucket of >= 2 records on both sides
		dupBoth := false
		{
			lc, rc := map[string]int{}, map[string]int{}
			for _, l := range L {
				if k, ok := keyOf(l, n.lj, false); ok {
					lc[strings.Join(k, "\x00")]++
				}
			}
			for _, r := range R {
				if k, ok := keyOf(r, n.rj, false); ok {
					rc[strings.Join(k, "\x00")]++
				}
			}
			for k, c := range lc {
				if c >= 2 && rc[k] >= 2 {
					dupBoth = true
				}
			}
		}
		if ni == 0 {
			switch {
			case strict:
				rn.count("domain:sorted-strict", 1)
			case loose:
				rn.count("domain:sorted-keyless-interleaved", 1)
			default:
				rn.count("domain:unsorted", 1)
			}
		}
		for pi := range fam.pv[ni] {
			p := &fam.pv[ni][pi]
			// ---- default (unsorted, half-streaming) mode: model + laws
			var u [2][]groupOut
			for ie := 0; ie < ieMax; ie++ {
				u[ie] = make([]groupOut, len(emits))
				for ei := range emits {
					e := &emits[ei]
					iv := &invocation{args: buildArgs(fam.ifs, "", e, ie == 1, n, p, "", "L.dkvp"), lname: "L.dkvp", ltext: ltext, rtext: rtext}
					recs, ok := rn.exec(iv)
					u[ie][ei] = groupOut{ok: ok, recs: recs, iv: iv}
					if !ok {
						continue
					}
					rn.count("mode:u", 1)
					rn.count("emit:"+e.name, 1)
					rn.count("naming:"+n.name, 1)
					rn.count("pvar:"+p.name, 1)
					u[ie][ei].modelOK, u[ie][ei].exp = rn.checkModel(iv, recs, L, R, mkOpts(n, p, e, ie == 1), pc, true)
				}
				rn.laws(u[ie], n, p, ie == 1, pc)
			}
			// ---- -u spelled out is the default
			if pi == 0 {
				e := &emits[eFull]
				iv := &invocation{args: buildArgs(fam.ifs, "-u", e, false, n, p, "", "L.dkvp"), lname: "L.dkvp", ltext: ltext, rtext: rtext}
				if recs, ok := rn.exec(iv); ok && u[0][eFull].ok {
					if !eqRecSeq(recs, u[0][eFull].recs) {
						rn.viol("law-u-flag:"+caseKey(iv.args, pc.L, pc.R), fmt.Sprintf("`%s`: output with -u differs from the output without it (usage: -u is the default)\n with -u: %s\n without: %s",
							iv.shell(), recsString(recs), recsString(u[0][eFull].recs)), iv.replay(nil))
					}
				}
			}
			// ---- sorted-input mode
			if loose {
				for ie := 0; ie < ieMax; ie++ {
					for ei := range emits {
						e := &emits[ei]
						iv := &invocation{args: buildArgs(fam.ifs, "-s", e, ie == 1, n, p, "", "L.dkvp"), lname: "L.dkvp", ltext: ltext, rtext: rtext}
						recs, ok := rn.exec(iv)
						if !ok || !u[ie][ei].ok {
							continue
						}
						rn.count("mode:s-sorted-input", 1)
						if dupBoth {
							rn.count("mode:s-sorted-input-dup-keys-both-sides", 1)
							if e.ul {
								rn.count("mode:s-sorted-input-dup-keys-both-sides-with-ul", 1)
							}
						}
						if len(recs) > 0 {
							rn.count("mode:s-sorted-input-nonempty-output", 1)
						}
						if sc := canonMultiset(recs); !eqStrings(sc, canonMultiset(u[ie][ei].recs)) {
							if !u[ie][ei].modelOK && eqStrings(sc, u[ie][ei].exp) {
								// the default-mode output is the wrong one (already reported against the reference); -s agrees with the reference
								rn.count("law-sorted:difference-attributed-to-default-mode-violation", 1)
								continue
							}
							g := "law-sorted-eq-unsorted:"
							if !strict {
								g = "law-sorted-keyless-interleaved:"
							}
							rn.viol(g+caseKey(iv.args, pc.L, pc.R), fmt.Sprintf("`%s`: both inputs are sorted by the join keys, yet -s and the default mode give different multisets of records\n -s:      %s\n default: %s",
								iv.shell(), recsString(recs), recsString(u[ie][ei].recs)), iv.replay(map[string]any{"sorted_strict": strict}))
						}
					}
				}
			} else if !(fam.sThin && quick && (ni > 0 || pi > 0)) && !(fam.sThin && !quick && pi > 0) {
				// unsorted input: -s need not pair everything, but must terminate, exit 0 and never pair non-matching records
				for ie := 0; ie < ieMax; ie++ {
					for ei := range emits {
						e := &emits[ei]
						iv := &invocation{args: buildArgs(fam.ifs, "-s", e, ie == 1, n, p, "", "L.dkvp"), lname: "L.dkvp", ltext: ltext, rtext: rtext}
						recs, ok := rn.exec(iv)
						if !ok {
							continue
						}
						rn.count("mode:s-unsorted-input", 1)
						if ei == eFull {
							full := mkOpts(n, p, e, ie == 1)
							want := map[string]int{}
							for _, o := range refJoin(L, R, full) {
								if o.kind == kPaired {
									want[o.r.canon()]++
								}
							}
							lost := false
							seenL, seenR := map[string]bool{}, map[string]bool{}
							for _, r := range recs {
								_, hl := r.get(p.lp + "lid")
								_, hr := r.get(p.rp + "rid")
								if v, ok := r.get(p.lp + "lid"); ok {
									seenL[v] = true
								}
								if v, ok := r.get(p.rp + "rid"); ok {
									seenR[v] = true
								}
								if p.lidVisible && hl && hr {
									if want[r.canon()] == 0 {
										rn.viol("sorted-unsorted-input-falsepair:"+caseKey(iv.args, pc.L, pc.R), fmt.Sprintf("`%s`: -s on unsorted input emits a paired record %s that is not the pairing of two matching input records (or emits it too often)",
											iv.shell(), r.String()), iv.replay(nil))
									} else {
										want[r.canon()]--
									}
								}
							}
							if p.lidVisible {
								lost = len(seenL) != len(L) || len(seenR) != len(R)
								if lost {
									rn.count("unconstrained:s-unsorted-input-records-missing-under-ul-ur", 1)
								} else {
									rn.count("unconstrained:s-unsorted-input-all-records-present-under-ul-ur", 1)
								}
							}
						}
					}
				}
			}
		}
		// ---- left-file formats (thin option sets)
		if fam.formats && ni < 2 {
			rn.formatPass(fam, n, pc)
		}
	}
}

func eqRecSeq(a, b []rec) bool {
	if len(a) != len(b) {
		return false
	}
	for i := range a {
		if a[i].canon() != b[i].canon() {
			return false
		}
	}
	return true
}

// checkModel compares one default-mode output with the reference join.
func (rn *runner) checkModel(iv *invocation, got []rec, L, R []rec, o joinOpts, pc pairCase, nontrivialCount bool) (bool, []string) {
	w := rn.w
	exp := refJoin(L, R, o)
	expRecs := make([]rec, len(exp))
	nPairs, nUL, nUR := 0, 0, 0
	pairedRid := map[string]bool{}
	ridName := o.rp + "rid"
	for i, e := range exp {
		expRecs[i] = e.r
		switch e.kind {
		case kPaired:
			nPairs++
			v, _ := e.r.get(ridName)
			pairedRid[v] = true
		case kLeftUnpaired:
			nUL++
		case kRightUnpaired:
			nUR++
		}
	}
	if nontrivialCount {
		if len(exp) > 0 {
			w.Nontrivial(1)
		}
		if nPairs > 0 {
			rn.count("expect:has-pairs", 1)
		}
		if nUL > 0 {
			rn.count("expect:has-left-unpaired", 1)
		}
		if nUR > 0 {
			rn.count("expect:has-right-unpaired", 1)
		}
		if len(exp) == 0 {
			rn.count("expect:empty-output", 1)
		}
		w.AddSet("outcome-shapes", fmt.Sprintf("p%d/ul%d/ur%d", nPairs, nUL, nUR))
	}
	key := caseKey(iv.args, pc.L, pc.R)
	expCanon := canonMultiset(expRecs)
	if !eqStrings(canonMultiset(got), expCanon) {
		g := "model-multiset:"
		if amb := joinedKeyAmbiguous(pc); amb != "" {
			// two different key tuples of this case have the same comma-joined text: reported under its own
			// group, keyed by the field naming and the colliding tuples (not by every option set and input pair)
			g = "model-multiset-joinedkey:"
			key = strings.Join(o.lj, ",") + "/" + strings.Join(o.rj, ",") + "|" + amb
		}
		rn.viol(g+key, fmt.Sprintf("`%s`\n got:      %s\n expected (as a multiset): %s", iv.shell(), recsString(got), recsString(expRecs)),
			iv.replay(map[string]any{"got": recsString(got), "expected": recsString(expRecs)}))
		return false, expCanon
	}
	// paired records: right-stream order, then left-file order within a key.
	// (A right record is paired or not as a whole, so "has a paired rid" identifies the paired records.)
	var gotPairs, expPairs []rec
	lastPairPos, firstLeftOnly, firstRightOnly := -1, -1, -1
	for i, r := range got {
		v, has := r.get(ridName)
		if has && pairedRid[v] {
			gotPairs = append(gotPairs, r)
			lastPairPos = i
		} else if !has && firstLeftOnly < 0 {
			firstLeftOnly = i
		} else if has && firstRightOnly < 0 {
			firstRightOnly = i
		}
	}
	for _, e := range exp {
		if e.kind == kPaired {
			expPairs = append(expPairs, e.r)
		}
	}
	if !eqRecSeq(gotPairs, expPairs) {
		rn.viol("model-pair-order:"+key, fmt.Sprintf("`%s`: paired records are not in right-stream order then left-file order\n got:      %s\n expected: %s", iv.shell(), recsString(gotPairs), recsString(expPairs)),
			iv.replay(map[string]any{"got": recsString(got)}))
	}
	// questions-about-joins.md: "Paired records are emitted first ..., then the unpaired database [left] records"
	if firstLeftOnly >= 0 && firstLeftOnly < lastPairPos {
		rn.viol("order-ul-before-pair:"+key, fmt.Sprintf("`%s`: an unpaired left record precedes a paired record in default mode: %s", iv.shell(), recsString(got)), iv.replay(nil))
	}
	// not fixed by the documentation: where right-unpaired records sit relative to paired ones, order among left-unpaired
	if nUR > 0 && nPairs > 0 {
		rn.count("unconstrained:right-unpaired-vs-paired-interleaving", 1)
		if firstRightOnly >= 0 && firstRightOnly < lastPairPos {
			// questions-about-joins.md also says "unpaired records are emitted after all paired records"; for
			// right-unpaired records the streaming join cannot do that and the reference-verbs text does not ask for it
			rn.count("unconstrained:right-unpaired-emitted-before-a-paired-record", 1)
		}
	}
	if nUL > 1 {
		rn.count("unconstrained:order-among-left-unpaired", 1)
	}
	return true, expCanon
}

// joinedKeyAmbiguous: the case contains two complete key tuples that differ as
// tuples but have the same text once joined with commas.
func joinedKeyAmbiguous(pc pairCase) string {
	seen := map[string]tuple{}
	for _, ts := range [][]tuple{pc.L, pc.R} {
		for _, t := range ts {
			if len(t) < 2 || inList(missing, t) {
				continue
			}
			j := strings.Join(t, ",")
			if prev, ok := seen[j]; ok && strings.Join(prev, "\x00") != strings.Join(t, "\x00") {
				a, b := prev.String(), t.String()
				if b < a {
					a, b = b, a
				}
				return a + "~" + b
			}
			seen[j] = t
		}
	}
	return ""
}

// laws evaluates the model-free identities on the 7 emit-flag outputs of one
// (inputs, naming, prefix/keep variant, --ignore-empty) group in default mode.
func (rn *runner) laws(g []groupOut, n *naming, p *pvar, ie bool, pc pairCase) {
	full := g[eFull]
	if !full.ok {
		return
	}
	lidName, ridName := p.lp+"lid", p.rp+"rid"
	key := caseKey(full.iv.args, pc.L, pc.R)
	// --ignore-empty never pairs empty keys
	if ie {
		for ei := range g {
			if !g[ei].ok {
				continue
			}
			for _, r := range g[ei].recs {
				_, hl := r.get(lidName)
				_, hr := r.get(ridName)
				if !(hl && hr) {
					continue
				}
				for _, on := range n.oj {
					if v, ok := r.get(on); ok && v == "" {
						rn.viol("law-ignore-empty:"+caseKey(g[ei].iv.args, pc.L, pc.R), fmt.Sprintf("`%s`: --ignore-empty paired records on an empty join value: %s", g[ei].iv.shell(), r.String()), g[ei].iv.replay(nil))
					}
				}
			}
		}
	}
	if !p.lidVisible {
		rn.count("laws:skipped-lid-not-kept", 1)
		return
	}
	rn.count("laws:evaluated", 1)
	// exactly once under --ul --ur: every input record appears, as paired (possibly several times) or as unpaired (once), never both
	type cnt struct{ paired, alone int }
	lc, rc := map[string]*cnt{}, map[string]*cnt{}
	for i := range pc.L {
		lc[fmt.Sprintf("L%d", i)] = &cnt{}
	}
	for i := range pc.R {
		rc[fmt.Sprintf("R%d", i)] = &cnt{}
	}
	bad := ""
	for _, r := range full.recs {
		lv, hl := r.get(lidName)
		rv, hr := r.get(ridName)
		if !hl && !hr {
			bad = "an output record carries no input record's id: " + r.String()
			break
		}
		if hl {
			c := lc[lv]
			if c == nil {
				bad = "unknown left id in " + r.String()
				break
			}
			if hr {
				c.paired++
			} else {
				c.alone++
			}
		}
		if hr {
			c := rc[rv]
			if c == nil {
				bad = "unknown right id in " + r.String()
				break
			}
			if hl {
				c.paired++
			} else {
				c.alone++
			}
		}
	}
	if bad == "" {
		for id, c := range lc {
			if !((c.paired >= 1 && c.alone == 0) || (c.paired == 0 && c.alone == 1)) {
				bad = fmt.Sprintf("left record %s appears %d time(s) paired and %d time(s) unpaired", id, c.paired, c.alone)
			}
		}
		for id, c := range rc {
			if !((c.paired >= 1 && c.alone == 0) || (c.paired == 0 && c.alone == 1)) {
				bad = fmt.Sprintf("right record %s appears %d time(s) paired and %d time(s) unpaired", id, c.paired, c.alone)
			}
		}
	}
	if bad != "" {
		rn.viol("ids-exactly-once:"+key, fmt.Sprintf("`%s`: with --ul --ur every input record must appear exactly once (as paired or as unpaired): %s\n output: %s", full.iv.shell(), bad, recsString(full.recs)), full.iv.replay(nil))
	}
	// every other emit-flag combination = the matching selection from the --ul --ur output (so --np removes exactly the paired ones)
	for ei := range g {
		if ei == eFull || !g[ei].ok {
			continue
		}
		e := &emits[ei]
		var sel []rec
		for _, r := range full.recs {
			_, hl := r.get(lidName)
			_, hr := r.get(ridName)
			switch {
			case hl && hr:
				if !e.np {
					sel = append(sel, r)
				}
			case hl:
				if e.ul {
					sel = append(sel, r)
				}
			case hr:
				if e.ur {
					sel = append(sel, r)
				}
			}
		}
		if !eqStrings(canonMultiset(sel), canonMultiset(g[ei].recs)) {
			rn.viol("law-emit-filter:"+caseKey(g[ei].iv.args, pc.L, pc.R), fmt.Sprintf("`%s`: output is not the {%s} selection of the --ul --ur output\n got:       %s\n selection: %s\n --ul --ur: %s",
				g[ei].iv.shell(), e.name, recsString(g[ei].recs), recsString(sel), recsString(full.recs)), g[ei].iv.replay(nil))
		}
	}
}

// formatPass: the left file's format must not matter. Runs dkvp/json (and csv
// when the left list is one homogeneous table) on thin option sets.
func (rn *runner) formatPass(fam *family, n *naming, pc pairCase) {
	ieMax := 2
	w := rn.w
	type variant struct {
		hetero bool
	}
	ps := []*pvar{&pvarsAll[0], &pvarsAll[3]}
	for _, hetero := range []bool{true, false} {
		L, R := buildLeft(pc.L, n.lj, hetero, fam.rotate), buildRight(pc.R, n.rj, hetero, fam.rotate)
		rtext := writeDKVP(R, fam.ifs)
		type lf struct{ fmtName, flag, lname, text string }
		var fmts []lf
		if hetero {
			fmts = append(fmts, lf{"json", "json", "L.json", writeJSON(L)})
		} else {
			fmts = append(fmts, lf{"dkvp", "", "L.dkvp", writeDKVP(L, fam.ifs)})
			if len(L) == 0 || homogeneous(L) {
				fmts = append(fmts, lf{"csv", "csv", "L.csv", writeCSV(L)})
				rn.count("domain:csv-representable-left", 1)
			} else {
				rn.count("domain:csv-unrepresentable-left(heterogeneous)", 1)
			}
		}
		for _, p := range ps {
			for ie := 0; ie < ieMax; ie++ {
				e := &emits[eFull]
				for _, f := range fmts {
					iv := &invocation{args: buildArgs(fam.ifs, "", e, ie == 1, n, p, f.flag, f.lname), lname: f.lname, ltext: f.text, rtext: rtext}
					recs, ok := rn.exec(iv)
					if !ok {
						continue
					}
					rn.count("leftfmt:"+f.fmtName, 1)
					rn.checkModel(iv, recs, L, R, mkOpts(n, p, e, ie == 1), pc, false)
				}
			}
		}
	}
	_ = w
}

// ---------------------------------------------------------------- orchestrator

func run(c *vf.Ctx) {
	c.Rule = "every (left list, right list) over the key alphabet with lists of bounded length x every option set of the family (7 emit-flag sets x --ignore-empty x field naming x prefix/keep variant x {default, -s}); each invocation goes through the whole CLI in-process (left file served by name, right stream on stdin). distinct_nontrivial = default-mode invocations whose reference output is non-empty (all invocations differ in input or options by construction)"
	c.Assume("bounds: join-key alphabet {1, 2, empty, missing, 01}, lists of <= 3 records per side (quick: 01 only in lists of <= 2), two-field keys in lists of <= 2 (thorough: <= 3 on a 5-tuple alphabet), zero-field join on lists of <= 3; family dup4: keys {1,2}, all lists of <= 4 with the join field at a different position in successive records of each file; family sorted5: sorted lists of <= 5 over {1,2,3} (thorough: plus missing); family oneside: one-sided renaming (-j k -r k2 / -j k -l k2), lists of <= 2 over {1,2,empty,missing}; family sorted2p: two join fields, first field over {x, x+y, x y, ann, ann marie, a, a!, b}, both sides sorted field by field (byte-wise), lists of <= 3 (quick: len(L)+len(R) <= 4)")
	c.Assume("non-join field names never equal a join-field output name; left/right non-join names collide on v (always) and x (left record 1 / right record 0)")
	c.Assume("relative position of right-unpaired records among paired records, and order among left-unpaired records, are not fixed by the documentation: counted as unconstrained, only their multiset is asserted")
	c.Assume("-s (sorted-input mode): asserted equal as a multiset to default mode only when both inputs are sorted (lexically ascending on the join-field texts, key-less records anywhere; violations on lists whose key-less records are not last are reported under a separate key); on unsorted input only: terminates, exit 0, parseable output, no paired record that is not a true pairing")
	c.Assume("left-file formats: dkvp everywhere; json and csv on thin option sets (--ul --ur, with/without --ignore-empty, no prefix / --lp --rp); csv only when the left list is one homogeneous table")
	c.Assume("--prepipe/--prepipex for the left file and the nested left-reader's scheduling (E1 part) are not covered here")
	c.Assume("values are compared as text after --jvquoteall JSON Lines output; number formatting is C02/C03's subject")
	stall := 180
	if v, err := strconv.Atoi(os.Getenv("VERIF_C13_STALL")); err == nil && v > 0 {
		stall = v // debugging aid
	}
	res := c.RunPool(vf.PoolSpec{Worker: "grid", Shards: 256, StallSecs: stall,
		CrashKey: func(idx uint64, label, kind, tail string) (string, string) {
			return "crash:" + label, fmt.Sprintf("join invocation in block %d (%s) makes the process %s: %s", idx, label, kind, tail)
		}})
	c.Extra["distinct_outcome_shapes"] = vf.SetSize(res, "outcome-shapes")
	c.Extra["outcome_shapes"] = vf.SortedSet(res, "outcome-shapes")
	var fams []string
	for _, f := range families(c.Quick()) {
		fams = append(fams, fmt.Sprintf("%s: alphabet %s, lists<=%d, %d pairs, %d namings, %d prefix/keep variants", f.name, tuplesString(f.alpha), f.maxLen, len(f.pairs()), len(f.names), len(f.pv[0])))
	}
	c.Extra["families"] = fams
	// vacuity: every flag and symbol must have been exercised
	for _, k := range []string{"flag:--np", "flag:--ul", "flag:--ur", "flag:--ignore-empty", "flag:-s", "flag:-u", "flag:--lp", "flag:--rp", "flag:--lk", "flag:-l", "flag:-r", "flag:-j", "flag:-i",
		"sym:L:1", "sym:L:2", "sym:L:E", "sym:L:M", "sym:L:01", "sym:L:ann marie", "sym:L:x+y", "sym:L:a!", "sym:R:x y", "naming:jr", "naming:jl", "sortcheck:mlr-sort-f-agrees-with-bytewise-tuple-order", "sym:R:1", "sym:R:E", "sym:R:M", "mode:s-sorted-input", "mode:s-sorted-input-dup-keys-both-sides-with-ul", "mode:s-unsorted-input", "leftfmt:json", "leftfmt:csv", "expect:has-pairs", "expect:has-left-unpaired", "expect:has-right-unpaired"} {
		if c.Counters[k] == 0 && os.Getenv("VERIF_C13_FAMILY") == "" {
			c.Broken("vacuity: %s was never exercised", k)
		}
	}
}
