module verif/vinstr

go 1.23
