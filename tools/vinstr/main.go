// vinstr: build-time instrumentation of the Miller tree through `go build
// -overlay`. Reads the CURRENT working tree of the repository, writes
// rewritten copies of the files it changes plus overlay.json. Never edits the
// repository.
//
// usage: vinstr -repo /repo -out DIR -parser parser.go -rt /verif/rt/verifrt
//
//	[-sched] [-exports DIR] [-const pkg/path/file.go:NAME=VALUE]...
package main

import (
	"bytes"
	"encoding/json"
	"flag"
	"fmt"
	"go/ast"
	"go/format"
	"go/parser"
	"go/token"
	"os"
	"path/filepath"
	"reflect"
	"sort"
	"strings"
)

const rtImport = "github.com/johnkerl/miller/v6/pkg/verifrt"

type multi []string

func (m *multi) String() string     { return strings.Join(*m, ",") }
func (m *multi) Set(s string) error { *m = append(*m, s); return nil }

var schedDirs = map[string]bool{
	"pkg/stream": true, "pkg/transformers": true, "pkg/transformers/utils": true,
	"pkg/input": true, "pkg/output": true, "pkg/dsl/cst": true, "pkg/lib": true,
	"pkg/runtime": true, "pkg/types": true, "pkg/climain": true, "pkg/cli": true,
}

// files whose goroutines/channels talk to external processes: never scheduled
var schedSkipFiles = map[string]bool{"pkg/lib/halfpipe.go": true}

type rewriter struct {
	fset    *token.FileSet
	rel     string
	sched   bool
	changed bool
	errs    []string
	usedOS  bool
	usedSyn bool
	ntmp    int
}

func (r *rewriter) pos(n ast.Node) ast.Expr {
	p := r.fset.Position(n.Pos())
	return &ast.BasicLit{Kind: token.STRING, Value: fmt.Sprintf("%q", fmt.Sprintf("%s:%d", strings.TrimPrefix(r.rel, "pkg/"), p.Line))}
}

func call(name string, args ...ast.Expr) *ast.CallExpr {
	return &ast.CallExpr{Fun: &ast.SelectorExpr{X: ast.NewIdent("verifrt"), Sel: ast.NewIdent(name)}, Args: args}
}

func isRecv(e ast.Expr) (*ast.UnaryExpr, bool) {
	if p, ok := e.(*ast.ParenExpr); ok {
		return isRecv(p.X)
	}
	u, ok := e.(*ast.UnaryExpr)
	return u, ok && u.Op == token.ARROW
}

func pure(e ast.Expr) bool {
	switch x := e.(type) {
	case *ast.Ident:
		return true
	case *ast.SelectorExpr:
		return pure(x.X)
	case *ast.ParenExpr:
		return pure(x.X)
	case *ast.StarExpr:
		return pure(x.X)
	case *ast.IndexExpr:
		return pure(x.X) && pure(x.Index)
	case *ast.BasicLit:
		return true
	}
	return false
}

func isLiteralish(e ast.Expr) bool {
	switch x := e.(type) {
	case *ast.BasicLit:
		return true
	case *ast.Ident:
		return x.Name == "nil" || x.Name == "true" || x.Name == "false"
	case *ast.FuncLit:
		return true
	}
	return false
}

func (r *rewriter) tmp(prefix string) *ast.Ident {
	r.ntmp++
	return ast.NewIdent(fmt.Sprintf("_v%s%d", prefix, r.ntmp))
}

func define(lhs *ast.Ident, rhs ast.Expr) ast.Stmt {
	return &ast.AssignStmt{Lhs: []ast.Expr{lhs}, Tok: token.DEFINE, Rhs: []ast.Expr{rhs}}
}

func (r *rewriter) goStmt(n *ast.GoStmt) ast.Stmt {
	r.changed = true
	c := n.Call
	var stmts []ast.Stmt
	fun := r.rw(c.Fun).(ast.Expr)
	if _, isLit := fun.(*ast.FuncLit); !isLit {
		if _, isIdent := fun.(*ast.Ident); !isIdent {
			// method value / selector: bind receiver now, as the go statement does
			if sel, ok := fun.(*ast.SelectorExpr); !ok || !isPkgIdent(sel.X) {
				t := r.tmp("fn")
				stmts = append(stmts, define(t, fun))
				fun = t
			}
		}
	}
	args := make([]ast.Expr, len(c.Args))
	for i, a := range c.Args {
		a = r.rw(a).(ast.Expr)
		if isLiteralish(a) {
			args[i] = a
			continue
		}
		t := r.tmp("a")
		stmts = append(stmts, define(t, a))
		args[i] = t
	}
	inner := &ast.CallExpr{Fun: fun, Args: args, Ellipsis: c.Ellipsis}
	fl := &ast.FuncLit{Type: &ast.FuncType{Params: &ast.FieldList{}}, Body: &ast.BlockStmt{List: []ast.Stmt{&ast.ExprStmt{X: inner}}}}
	stmts = append(stmts, &ast.ExprStmt{X: call("Go", fl)})
	return &ast.BlockStmt{List: stmts}
}

// package identifiers used as selectors in go statements of this tree
func isPkgIdent(e ast.Expr) bool {
	id, ok := e.(*ast.Ident)
	if !ok {
		return false
	}
	switch id.Name {
	case "transformers", "output", "input", "lib", "utils", "stream":
		return id.Obj == nil
	}
	return false
}

func (r *rewriter) sendStmt(n *ast.SendStmt) ast.Stmt {
	r.changed = true
	var stmts []ast.Stmt
	ch := r.rw(n.Chan).(ast.Expr)
	val := r.rw(n.Value).(ast.Expr)
	tc := r.tmp("c")
	stmts = append(stmts, define(tc, ch))
	if !isLiteralish(val) {
		tv := r.tmp("x")
		stmts = append(stmts, define(tv, val))
		val = tv
	}
	ts := r.tmp("s")
	stmts = append(stmts, define(ts, call("PreSendV", tc, val, r.pos(n))))
	stmts = append(stmts, &ast.SendStmt{Chan: tc, Value: val})
	stmts = append(stmts, &ast.ExprStmt{X: &ast.CallExpr{Fun: &ast.SelectorExpr{X: ts, Sel: ast.NewIdent("Post")}}})
	return &ast.BlockStmt{List: stmts}
}

func (r *rewriter) selectStmt(n *ast.SelectStmt) ast.Stmt {
	r.changed = true
	args := []ast.Expr{}
	hasDefault := "false"
	sel := r.tmp("sel")
	sw := &ast.SwitchStmt{Body: &ast.BlockStmt{}}
	idx := 0
	post := func() ast.Stmt {
		return &ast.ExprStmt{X: &ast.CallExpr{Fun: &ast.SelectorExpr{X: ast.NewIdent(sel.Name), Sel: ast.NewIdent("Post")}}}
	}
	for _, cc := range n.Body.List {
		c := cc.(*ast.CommClause)
		body := []ast.Stmt{}
		var clause *ast.CaseClause
		if c.Comm == nil {
			hasDefault = "true"
			clause = &ast.CaseClause{List: []ast.Expr{&ast.UnaryExpr{Op: token.SUB, X: &ast.BasicLit{Kind: token.INT, Value: "1"}}}}
		} else {
			clause = &ast.CaseClause{List: []ast.Expr{&ast.BasicLit{Kind: token.INT, Value: fmt.Sprint(idx)}}}
			idx++
			var chExpr ast.Expr
			switch cm := c.Comm.(type) {
			case *ast.SendStmt:
				chExpr = cm.Chan
				args = append(args, call("S", cm.Chan))
			case *ast.ExprStmt:
				u, ok := isRecv(cm.X)
				if !ok {
					r.errs = append(r.errs, "select comm clause not understood")
					continue
				}
				chExpr = u.X
				args = append(args, call("R", u.X))
			case *ast.AssignStmt:
				u, ok := isRecv(cm.Rhs[0])
				if !ok {
					r.errs = append(r.errs, "select comm clause not understood")
					continue
				}
				chExpr = u.X
				args = append(args, call("R", u.X))
			}
			if !pure(chExpr) {
				r.errs = append(r.errs, fmt.Sprintf("%s: select operand is not a side-effect-free expression", r.fset.Position(c.Pos())))
			}
			body = append(body, c.Comm, post())
		}
		for _, b := range c.Body {
			body = append(body, r.rw(b).(ast.Stmt))
		}
		clause.Body = body
		sw.Body.List = append(sw.Body.List, clause)
	}
	sw.Body.List = append(sw.Body.List, &ast.CaseClause{List: nil, Body: []ast.Stmt{&ast.ExprStmt{X: &ast.CallExpr{Fun: ast.NewIdent("panic"), Args: []ast.Expr{&ast.BasicLit{Kind: token.STRING, Value: `"verifrt: unreachable select arm"`}}}}}})
	all := append([]ast.Expr{ast.NewIdent(hasDefault), r.pos(n)}, args...)
	sw.Init = define(sel, call("Select", all...))
	sw.Tag = &ast.SelectorExpr{X: ast.NewIdent(sel.Name), Sel: ast.NewIdent("I")}
	return sw
}

func (r *rewriter) rewriteStmt(s ast.Stmt) ast.Stmt {
	switch n := s.(type) {
	case *ast.GoStmt:
		if schedSkipFiles[r.rel] {
			return nil
		}
		return r.goStmt(n)
	case *ast.SendStmt:
		if r.sched {
			return r.sendStmt(n)
		}
	case *ast.AssignStmt:
		if r.sched && len(n.Lhs) == 2 && len(n.Rhs) == 1 {
			if u, ok := isRecv(n.Rhs[0]); ok {
				r.changed = true
				n.Rhs[0] = call("Recv2", r.rw(u.X).(ast.Expr), r.pos(n))
				for i := range n.Lhs {
					n.Lhs[i] = r.rw(n.Lhs[i]).(ast.Expr)
				}
				return n
			}
		}
	case *ast.SelectStmt:
		if r.sched {
			return r.selectStmt(n)
		}
	case *ast.RangeStmt:
		if r.sched {
			// range over a channel is not in the tree's vocabulary; we cannot tell
			// syntactically, so nothing to do here (checked by the free/sched
			// equivalence test).
			//
			// range over a MAP whose iteration order decides the order of channel operations is nondeterminism the
			// scheduler must own: the listed maps are iterated in sorted key order (one of the orders Go allows).
			if sel, ok := n.X.(*ast.SelectorExpr); ok && sortedRangeSites[r.rel][sel.Sel.Name] && pure(n.X) && n.Tok == token.DEFINE {
				r.changed = true
				k := r.tmp("k")
				if id, ok := n.Key.(*ast.Ident); ok && id.Name != "_" {
					k = ast.NewIdent(id.Name)
				}
				body := []ast.Stmt{}
				if id, ok := n.Value.(*ast.Ident); ok && id.Name != "_" {
					body = append(body, &ast.AssignStmt{Lhs: []ast.Expr{ast.NewIdent(id.Name)}, Tok: token.DEFINE, Rhs: []ast.Expr{&ast.IndexExpr{X: n.X, Index: ast.NewIdent(k.Name)}}})
				}
				for _, b := range n.Body.List {
					body = append(body, r.rw(b).(ast.Stmt))
				}
				return &ast.RangeStmt{Key: ast.NewIdent("_"), Value: ast.NewIdent(k.Name), Tok: token.DEFINE, X: call("SortedKeys", n.X), Body: &ast.BlockStmt{List: body}}
			}
		}
	}
	return nil
}

// maps (by file and field name) whose range loops are made deterministic in the sched build
var sortedRangeSites = map[string]map[string]bool{
	"pkg/output/file_output_handlers.go": {"outputHandlers": true, "lruNodes": true},
}

func (r *rewriter) rw(n ast.Node) ast.Node {
	if n == nil || reflect.ValueOf(n).IsNil() {
		return n
	}
	if s, ok := n.(ast.Stmt); ok {
		if x := r.rewriteStmt(s); x != nil {
			return x
		}
	}
	if e, ok := n.(ast.Expr); ok {
		if r.sched {
			if u, ok := isRecv(e); ok {
				r.changed = true
				return call("Recv", r.rw(u.X).(ast.Expr), r.pos(u))
			}
		}
		if c, ok := e.(*ast.CallExpr); ok {
			if id, ok := c.Fun.(*ast.Ident); ok && r.sched {
				if id.Name == "close" && len(c.Args) == 1 {
					r.changed = true
					return call("Close", r.rw(c.Args[0]).(ast.Expr), r.pos(c))
				}
				if id.Name == "make" && len(c.Args) >= 1 {
					if _, ok := c.Args[0].(*ast.ChanType); ok {
						r.changed = true
						return call("Reg", c)
					}
				}
			}
			if sel, ok := c.Fun.(*ast.SelectorExpr); ok {
				if id, ok := sel.X.(*ast.Ident); ok && id.Name == "os" && sel.Sel.Name == "Exit" && id.Obj == nil {
					r.changed = true
					r.usedOS = true
					c.Fun = &ast.SelectorExpr{X: ast.NewIdent("verifrt"), Sel: ast.NewIdent("Exit")}
				}
			}
		}
		if sel, ok := e.(*ast.SelectorExpr); ok && r.sched {
			if id, ok := sel.X.(*ast.Ident); ok && id.Name == "sync" && sel.Sel.Name == "Mutex" && id.Obj == nil {
				r.changed = true
				r.usedSyn = true
				return &ast.SelectorExpr{X: ast.NewIdent("verifrt"), Sel: ast.NewIdent("Mutex")}
			}
		}
	}
	v := reflect.ValueOf(n).Elem()
	for i := 0; i < v.NumField(); i++ {
		f := v.Field(i)
		switch f.Kind() {
		case reflect.Interface, reflect.Ptr:
			if f.IsNil() {
				continue
			}
			switch f.Interface().(type) {
			case *ast.Object, *ast.Scope:
				continue
			}
			if child, ok := f.Interface().(ast.Node); ok {
				x := r.rw(child)
				if x != child {
					f.Set(reflect.ValueOf(x))
				}
			}
		case reflect.Slice:
			for j := 0; j < f.Len(); j++ {
				el := f.Index(j)
				if el.Kind() != reflect.Interface && el.Kind() != reflect.Ptr {
					continue
				}
				if el.IsNil() {
					continue
				}
				if child, ok := el.Interface().(ast.Node); ok {
					x := r.rw(child)
					if x != child {
						el.Set(reflect.ValueOf(x))
					}
				}
			}
		}
	}
	return n
}

func fail(f string, a ...any) {
	fmt.Fprintf(os.Stderr, "BROKEN: vinstr: "+f+"\n", a...)
	os.Exit(2)
}

func main() {
	var repo, out, parserPath, rt, exports string
	var sched bool
	var consts multi
	flag.StringVar(&repo, "repo", "/repo", "")
	flag.StringVar(&out, "out", "", "")
	flag.StringVar(&parserPath, "parser", "", "")
	flag.StringVar(&rt, "rt", "", "")
	flag.StringVar(&exports, "exports", "", "")
	flag.BoolVar(&sched, "sched", false, "")
	flag.Var(&consts, "const", "rel/file.go:NAME=VALUE")
	var extras multi
	flag.Var(&extras, "extra", "abs/path.go=replacement.go (additional overlay entry)")
	flag.Parse()
	if out == "" || rt == "" {
		fail("need -out and -rt")
	}
	os.MkdirAll(out, 0755)
	overlay := map[string]string{}
	constOv := map[string]map[string]string{}
	for _, c := range consts {
		i := strings.Index(c, ":")
		j := strings.Index(c, "=")
		if i < 0 || j < i {
			fail("bad -const %q", c)
		}
		f := c[:i]
		if constOv[f] == nil {
			constOv[f] = map[string]string{}
		}
		constOv[f][c[i+1:j]] = c[j+1:]
	}
	constHit := map[string]bool{}

	var files []string
	filepath.Walk(filepath.Join(repo, "pkg"), func(p string, info os.FileInfo, err error) error {
		if err != nil {
			return nil
		}
		if !info.IsDir() && strings.HasSuffix(p, ".go") && !strings.HasSuffix(p, "_test.go") {
			files = append(files, p)
		}
		return nil
	})
	sort.Strings(files)
	nInstr := 0
	for _, f := range files {
		rel, _ := filepath.Rel(repo, f)
		if rel == "pkg/parsing/parser/parser.go" {
			continue
		}
		src, err := os.ReadFile(f)
		if err != nil {
			fail("%v", err)
		}
		if len(src) == 0 {
			continue
		}
		// quick textual pre-filter
		txt := string(src)
		dir := filepath.Dir(rel)
		doSched := sched && schedDirs[dir] && !schedSkipFiles[rel]
		interesting := (sched && rel == "pkg/lib/rand.go") || strings.Contains(txt, "os.Exit") || strings.Contains(txt, "go ") || constOv[rel] != nil ||
			rel == "pkg/lib/file_readers.go" ||
			(doSched && (strings.Contains(txt, "<-") || strings.Contains(txt, "chan ") || strings.Contains(txt, "select") || strings.Contains(txt, "sync.Mutex")))
		if !interesting {
			continue
		}
		fset := token.NewFileSet()
		af, err := parser.ParseFile(fset, f, src, parser.ParseComments)
		if err != nil {
			fail("parse %s: %v", f, err)
		}
		r := &rewriter{fset: fset, rel: rel, sched: doSched}
		for i, d := range af.Decls {
			af.Decls[i] = r.rw(d).(ast.Decl)
		}
		// const override
		if co := constOv[rel]; co != nil {
			for _, d := range af.Decls {
				gd, ok := d.(*ast.GenDecl)
				if !ok || (gd.Tok != token.CONST && gd.Tok != token.VAR) {
					continue
				}
				for _, sp := range gd.Specs {
					vs := sp.(*ast.ValueSpec)
					for i, nm := range vs.Names {
						if v, ok := co[nm.Name]; ok && i < len(vs.Values) {
							vs.Values[i] = &ast.BasicLit{Kind: token.INT, Value: v}
							r.changed = true
							constHit[rel+":"+nm.Name] = true
						}
					}
				}
			}
		}
		// open hooks
		if rel == "pkg/lib/file_readers.go" {
			hooked := 0
			for _, d := range af.Decls {
				fd, ok := d.(*ast.FuncDecl)
				if !ok {
					continue
				}
				switch fd.Name.Name {
				case "PathToHandle":
					// if h, err, ok := verifrt.OpenHook(path); ok { return h, err }
					pname := fd.Type.Params.List[0].Names[0].Name
					ifs := &ast.IfStmt{
						Init: &ast.AssignStmt{Lhs: []ast.Expr{ast.NewIdent("_vh"), ast.NewIdent("_verr"), ast.NewIdent("_vok")}, Tok: token.DEFINE, Rhs: []ast.Expr{call("OpenHook", ast.NewIdent(pname))}},
						Cond: ast.NewIdent("_vok"),
						Body: &ast.BlockStmt{List: []ast.Stmt{&ast.ReturnStmt{Results: []ast.Expr{ast.NewIdent("_vh"), ast.NewIdent("_verr")}}}},
					}
					fd.Body.List = append([]ast.Stmt{ifs}, fd.Body.List...)
					hooked++
				case "OpenStdin":
					ast.Inspect(fd.Body, func(n ast.Node) bool {
						c, ok := n.(*ast.CallExpr)
						if !ok {
							return true
						}
						for i, a := range c.Args {
							if sel, ok := a.(*ast.SelectorExpr); ok {
								if id, ok := sel.X.(*ast.Ident); ok && id.Name == "os" && sel.Sel.Name == "Stdin" {
									c.Args[i] = call("Stdin")
									hooked++
								}
							}
						}
						return true
					})
				}
			}
			if hooked < 2 {
				fail("openhook: expected PathToHandle and os.Stdin in OpenStdin in %s (found %d seams)", rel, hooked)
			}
			r.changed = true
		}
		// shared-state pass: the process-wide RNG is drawn from several verb
		// goroutines; make every draw a scheduling point that records the
		// global draw order in the drawing goroutine's history.
		if sched && rel == "pkg/lib/rand.go" {
			n := 0
			for _, d := range af.Decls {
				fd, ok := d.(*ast.FuncDecl)
				if !ok || fd.Body == nil || fd.Name.Name == "SeedRandom" {
					continue
				}
				uses := false
				ast.Inspect(fd.Body, func(x ast.Node) bool {
					if id, ok := x.(*ast.Ident); ok && id.Name == "generator" {
						uses = true
					}
					return true
				})
				if uses {
					fd.Body.List = append([]ast.Stmt{&ast.ExprStmt{X: call("Shared", &ast.BasicLit{Kind: token.STRING, Value: `"rng"`})}}, fd.Body.List...)
					n++
				}
			}
			if n == 0 {
				fail("shared pass: no RNG-drawing function found in %s", rel)
			}
			r.changed = true
		}
		if len(r.errs) > 0 {
			fail("%s: %s", rel, strings.Join(r.errs, "; "))
		}
		if !r.changed {
			continue
		}
		// keep only comments before the package clause (build constraints); refuse directives elsewhere
		var keep []*ast.CommentGroup
		for _, cg := range af.Comments {
			if cg.End() < af.Package {
				keep = append(keep, cg)
				continue
			}
			for _, c := range cg.List {
				if strings.HasPrefix(c.Text, "//go:") {
					fail("%s: compiler directive %q in an instrumented file", rel, c.Text)
				}
			}
		}
		af.Comments = keep
		af.Doc = nil
		imp := &ast.GenDecl{Tok: token.IMPORT, Specs: []ast.Spec{&ast.ImportSpec{Path: &ast.BasicLit{Kind: token.STRING, Value: `"` + rtImport + `"`}}}}
		af.Decls = append([]ast.Decl{imp}, af.Decls...)
		if r.usedOS {
			af.Decls = append(af.Decls, &ast.GenDecl{Tok: token.VAR, Specs: []ast.Spec{&ast.ValueSpec{Names: []*ast.Ident{ast.NewIdent("_")}, Values: []ast.Expr{&ast.SelectorExpr{X: ast.NewIdent("os"), Sel: ast.NewIdent("Exit")}}}}})
		}
		if r.usedSyn {
			af.Decls = append(af.Decls, &ast.GenDecl{Tok: token.VAR, Specs: []ast.Spec{&ast.ValueSpec{Names: []*ast.Ident{ast.NewIdent("_")}, Type: &ast.SelectorExpr{X: ast.NewIdent("sync"), Sel: ast.NewIdent("Once")}}}})
		}
		var buf bytes.Buffer
		if err := format.Node(&buf, token.NewFileSet(), af); err != nil {
			fail("print %s: %v", rel, err)
		}
		dst := filepath.Join(out, strings.ReplaceAll(rel, "/", "__"))
		writeIfChanged(dst, buf.Bytes())
		overlay[f] = dst
		nInstr++
	}
	for f, m := range constOv {
		for n := range m {
			if !constHit[f+":"+n] {
				fail("const override %s:%s did not match a declaration", f, n)
			}
		}
	}
	if parserPath != "" {
		overlay[filepath.Join(repo, "pkg/parsing/parser/parser.go")] = parserPath
	}
	rtFiles, _ := filepath.Glob(filepath.Join(rt, "*.go"))
	for _, f := range rtFiles {
		overlay[filepath.Join(repo, "pkg/verifrt", filepath.Base(f))] = f
	}
	if exports != "" {
		filepath.Walk(exports, func(p string, info os.FileInfo, err error) error {
			if err != nil || info.IsDir() || !strings.HasSuffix(p, ".go") {
				return nil
			}
			rel, _ := filepath.Rel(exports, p)
			overlay[filepath.Join(repo, rel)] = p
			return nil
		})
	}
	for _, e := range extras {
		i := strings.Index(e, "=")
		if i < 0 {
			fail("bad -extra %q", e)
		}
		overlay[e[:i]] = e[i+1:]
	}
	b, _ := json.MarshalIndent(map[string]any{"Replace": overlay}, "", " ")
	writeIfChanged(filepath.Join(out, "overlay.json"), b)
	fmt.Fprintf(os.Stderr, "vinstr: %d files instrumented (sched=%v), %d overlay entries\n", nInstr, sched, len(overlay))
}

func writeIfChanged(p string, b []byte) {
	old, err := os.ReadFile(p)
	if err == nil && bytes.Equal(old, b) {
		return
	}
	if err := os.WriteFile(p, b, 0644); err != nil {
		fail("%v", err)
	}
}
