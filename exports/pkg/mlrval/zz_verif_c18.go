package mlrval

// Added to the build through the overlay only (never present in /repo).
// Check C18 runs hundreds of thousands of DSL programs in one process. Some
// programs overwrite the process-wide literal singletons in place (e.g.
// `t = true; t[1] = 5` turns TRUE into an array: Mlrval.PutIndexed does
// `*mv = *FromEmptyArray()` on the shared pointer). A fresh process per
// invocation never sees that, so the harness detects it and restores the
// singletons between cases.

// VerifC18DirtySingleton returns the name of the first singleton that no
// longer has its initial contents, or "".
func VerifC18DirtySingleton() string {
	switch {
	case TRUE.mvtype != MT_BOOL || TRUE.printrep != "true" || !TRUE.printrepValid || TRUE.intf != true:
		return "TRUE"
	case FALSE.mvtype != MT_BOOL || FALSE.printrep != "false" || !FALSE.printrepValid || FALSE.intf != false:
		return "FALSE"
	case VOID.mvtype != MT_VOID || VOID.printrep != "" || !VOID.printrepValid:
		return "VOID"
	case NULL.mvtype != MT_NULL || NULL.printrep != "null" || !NULL.printrepValid:
		return "NULL"
	case ABSENT.mvtype != MT_ABSENT || ABSENT.printrep != ABSENT_PRINTREP || !ABSENT.printrepValid:
		return "ABSENT"
	case MINUS_ONE.mvtype != MT_INT || MINUS_ONE.printrep != "-1" || MINUS_ONE.intf != int64(-1):
		return "MINUS_ONE"
	case ZERO.mvtype != MT_INT || ZERO.printrep != "0" || ZERO.intf != int64(0):
		return "ZERO"
	case ONE.mvtype != MT_INT || ONE.printrep != "1" || ONE.intf != int64(1):
		return "ONE"
	}
	return ""
}

// VerifC18RestoreSingletons puts the initial contents back (same pointers).
func VerifC18RestoreSingletons() {
	*TRUE = Mlrval{mvtype: MT_BOOL, printrep: "true", printrepValid: true, intf: true}
	*FALSE = Mlrval{mvtype: MT_BOOL, printrep: "false", printrepValid: true, intf: false}
	*VOID = Mlrval{mvtype: MT_VOID, printrep: "", printrepValid: true}
	*NULL = Mlrval{mvtype: MT_NULL, printrep: "null", printrepValid: true}
	*ABSENT = Mlrval{mvtype: MT_ABSENT, printrep: ABSENT_PRINTREP, printrepValid: true}
	*MINUS_ONE = Mlrval{mvtype: MT_INT, printrep: "-1", printrepValid: true, intf: int64(-1)}
	*ZERO = Mlrval{mvtype: MT_INT, printrep: "0", printrepValid: true, intf: int64(0)}
	*ONE = Mlrval{mvtype: MT_INT, printrep: "1", printrepValid: true, intf: int64(1)}
}
