package mlrval

// Added to the build through the overlay only (never present in /repo).
// Read-only seams for the C12 Mlrmap model check: the unexported key index
// and the lazy-hash flag.

// VerifC12Index returns the key-to-entry index (nil when none is built).
func VerifC12Index(m *Mlrmap) map[string]*MlrmapEntry { return m.keysToEntries }

// VerifC12AutoHash reports whether the map builds its index lazily.
func VerifC12AutoHash(m *Mlrmap) bool { return m.autoHash }
