package mlrval

import "sync"

// Added to the build through the overlay only (never present in /repo).

// VerifC02ResetUnflattenWarnings forgets which field names the auto-unflatten
// warning was already printed for (a process-wide once-per-name memo), so that
// repeated in-process invocations behave like fresh processes.
func VerifC02ResetUnflattenWarnings() { warnedUnflattenFieldNames = sync.Map{} }
