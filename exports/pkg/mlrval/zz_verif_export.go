package mlrval

// Added to the build through the overlay only (never present in /repo).

// VerifResetGlobals puts the process-wide switches that command-line flags
// flip (-S/-A/-O, --ofmt, --hash-records) back to their defaults, so that an
// in-process harness can run many invocations in one worker.
func VerifResetGlobals() {
	packageLevelInferrer = inferNormally
	floatOutputFormatter = nil
	hashRecords = true
}

// VerifHashThreshold exposes the lazily-hashed record threshold.
func VerifHashThreshold() int { return mlrmapHashThreshold }
