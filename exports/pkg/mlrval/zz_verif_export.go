package mlrval

import "strconv"

// Added to the build through the overlay only (never present in /repo).

// VerifResetGlobals puts the process-wide switches that command-line flags
// flip (-S/-A/-O, --ofmt, --hash-records) back to their defaults, so that an
// in-process harness can run many invocations in one worker.
func VerifResetGlobals() {
	packageLevelInferrer = inferNormally
	floatOutputFormatter = nil
	hashRecords = true
}

// VerifHashThreshold exposes the lazily-hashed record threshold.
func VerifHashThreshold() int { return mlrmapHashThreshold }

// VerifDigest folds the content of a value into h without touching it (no inference, no formatting, no caching):
// used by the schedule explorer to tell apart channel messages of different content.
func (mv *Mlrval) VerifDigest(h uint64) uint64 {
	const prime = 1099511628211
	mixs := func(h uint64, s string) uint64 {
		for i := 0; i < len(s); i++ {
			h = (h ^ uint64(s[i])) * prime
		}
		return (h ^ 0xff) * prime
	}
	if mv == nil {
		return mixs(h, "nil")
	}
	h = (h ^ uint64(uint8(mv.mvtype))) * prime
	if mv.printrepValid {
		h = mixs(h, mv.printrep)
	}
	switch x := mv.intf.(type) {
	case nil:
	case int64:
		h = (h ^ uint64(x)) * prime
	case float64:
		h = mixs(h, strconv.FormatFloat(x, 'g', -1, 64))
	case bool:
		if x {
			h = (h ^ 1) * prime
		}
	case string:
		h = mixs(h, x)
	case []byte:
		h = mixs(h, string(x))
	case *Mlrmap:
		h = x.VerifDigest(h)
	case []*Mlrval:
		h = (h ^ uint64(len(x))) * prime
		for _, e := range x {
			h = e.VerifDigest(h)
		}
	default:
		h = mixs(h, "other")
	}
	return h
}

func (m *Mlrmap) VerifDigest(h uint64) uint64 {
	const prime = 1099511628211
	if m == nil {
		return (h ^ 0xfe) * prime
	}
	for pe := m.Head; pe != nil; pe = pe.Next {
		for i := 0; i < len(pe.Key); i++ {
			h = (h ^ uint64(pe.Key[i])) * prime
		}
		h = (h ^ 0xfd) * prime
		h = pe.Value.VerifDigest(h)
	}
	return (h ^ 0xfc) * prime
}
