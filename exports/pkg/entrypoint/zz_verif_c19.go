package entrypoint

// Added to the build through the overlay only (never present in /repo).

import "github.com/johnkerl/miller/v6/pkg/cli"

// VerifProcessFilesInPlace exposes the -I driver (what Main calls after parsing the command line), so that check C19
// can run it under the controlled scheduler. It re-parses os.Args per file, as Main's caller does.
func VerifProcessFilesInPlace(options *cli.TOptions) error { return processFilesInPlace(options) }
