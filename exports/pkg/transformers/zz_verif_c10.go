package transformers

// Added to the build through the overlay only (never present in /repo).

// VerifStepperNames lists the names in the step verb's stepper table.
func VerifStepperNames() []string {
	out := make([]string, 0, len(STEPPER_LOOKUP_TABLE))
	for _, s := range STEPPER_LOOKUP_TABLE {
		out = append(out, s.name)
	}
	return out
}
