package utils

// Added to the build through the overlay only (never present in /repo).

// VerifStats1AccumulatorNames lists the names in the stats1/merge-fields
// accumulator table, so that check C10 walks the table itself (an
// accumulator added later is in scope without touching the check).
func VerifStats1AccumulatorNames() []string {
	out := make([]string, 0, len(stats1AccumulatorInfos))
	for _, info := range stats1AccumulatorInfos {
		out = append(out, info.name)
	}
	return out
}
