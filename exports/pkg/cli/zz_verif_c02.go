package cli

// Added to the build through the overlay only (never present in /repo).
// Read-only view of the main-flag table for the C02 check, so that every flag
// in FLAG_TABLE (including flags added later) is in scope of the enumeration.

// VerifC02Flag is one entry of FLAG_TABLE, in table order.
type VerifC02Flag struct {
	Section  string
	Name     string
	AltNames []string
	Arg      string
	Help     string
	Suppress bool
}

// VerifC02FlagTable lists every entry of FLAG_TABLE in lookup order.
func VerifC02FlagTable() []VerifC02Flag {
	var out []VerifC02Flag
	for _, s := range FLAG_TABLE.sections {
		for _, f := range s.flags {
			out = append(out, VerifC02Flag{
				Section:  s.name,
				Name:     f.name,
				AltNames: append([]string(nil), f.altNames...),
				Arg:      f.arg,
				Help:     f.help,
				Suppress: f.suppressFlagEnumeration,
			})
		}
	}
	return out
}

// VerifC02SeparatorAliases returns a copy of the separator alias tables.
func VerifC02SeparatorAliases() (plain map[string]string, regex map[string]string) {
	plain = map[string]string{}
	for k, v := range SEPARATOR_NAMES_TO_VALUES {
		plain[k] = v
	}
	regex = map[string]string{}
	for k, v := range SEPARATOR_REGEX_NAMES_TO_VALUES {
		regex[k] = v
	}
	return
}
