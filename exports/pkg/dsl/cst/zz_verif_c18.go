package cst

// Added to the build through the overlay only (never present in /repo).
// Used by check C18 to walk the builtin-function table with the arities each
// entry accepts, so that a function added to the table is in the check's scope
// automatically.

type VerifC18Builtin struct {
	Name     string
	Class    string
	Zary     bool
	Unary    bool
	Binary   bool
	Ternary  bool
	Variadic bool
	MinVar   int
	MaxVar   int // 0: no maximum
}

func VerifC18BuiltinTable() []VerifC18Builtin {
	var out []VerifC18Builtin
	for _, info := range makeBuiltinFunctionLookupTable() {
		out = append(out, VerifC18Builtin{
			Name:     info.name,
			Class:    string(info.class),
			Zary:     info.zaryFunc != nil || info.zaryFuncWithState != nil,
			Unary:    info.unaryFunc != nil || info.unaryFuncWithContext != nil,
			Binary:   info.binaryFunc != nil || info.regexCaptureBinaryFunc != nil || info.binaryFuncWithState != nil,
			Ternary:  info.ternaryFunc != nil || info.ternaryFuncWithState != nil,
			Variadic: info.variadicFunc != nil || info.variadicFuncWithState != nil,
			MinVar:   info.minimumVariadicArity,
			MaxVar:   info.maximumVariadicArity,
		})
	}
	return out
}
