package cst

// Added to the build through the overlay only (never present in /repo).
// Used by check C03 to walk the builtin-function table with the arities each
// entry accepts: every function that takes at least one argument becomes a
// "reader" of a field in the check's program dimension, so a function added to
// the table is in scope automatically.

type VerifC03Builtin struct {
	Name     string
	Class    string
	Unary    bool
	Binary   bool
	Ternary  bool
	Variadic bool
	MinVar   int
	MaxVar   int // 0: no maximum
}

func VerifC03BuiltinTable() []VerifC03Builtin {
	var out []VerifC03Builtin
	for _, info := range makeBuiltinFunctionLookupTable() {
		out = append(out, VerifC03Builtin{
			Name:     info.name,
			Class:    string(info.class),
			Unary:    info.unaryFunc != nil || info.unaryFuncWithContext != nil,
			Binary:   info.binaryFunc != nil || info.regexCaptureBinaryFunc != nil || info.binaryFuncWithState != nil,
			Ternary:  info.ternaryFunc != nil || info.ternaryFuncWithState != nil,
			Variadic: info.variadicFunc != nil || info.variadicFuncWithState != nil,
			MinVar:   info.minimumVariadicArity,
			MaxVar:   info.maximumVariadicArity,
		})
	}
	return out
}
