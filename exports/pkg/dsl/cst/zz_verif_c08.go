package cst

// Added to the build through the overlay only (never present in /repo).
// Used by check C08 to walk the builtin-function table, so that a function
// added to the table is in the check's scope automatically.

import "github.com/johnkerl/miller/v6/pkg/bifs"

type VerifC08Builtin struct {
	Name               string
	Class              string
	HasMultipleArities bool
	Unary              bifs.UnaryFunc
	Binary             bifs.BinaryFunc
	Ternary            bifs.TernaryFunc
	Variadic           bifs.VariadicFunc
	Other              bool // has an implementation of another shape (zary, with-state, with-context, regex-capture)
	ShortCircuit       bool // binary/ternary slot is the short-circuit placeholder
}

func VerifC08BuiltinTable() []VerifC08Builtin {
	var out []VerifC08Builtin
	for _, info := range makeBuiltinFunctionLookupTable() {
		b := VerifC08Builtin{
			Name:               info.name,
			Class:              string(info.class),
			HasMultipleArities: info.hasMultipleArities,
			Unary:              info.unaryFunc,
			Binary:             info.binaryFunc,
			Ternary:            info.ternaryFunc,
			Variadic:           info.variadicFunc,
		}
		switch info.name {
		case "&&", "||", "??", "???", "?:":
			b.ShortCircuit = true
			b.Binary = nil
			b.Ternary = nil
		}
		if info.zaryFunc != nil || info.unaryFuncWithContext != nil || info.regexCaptureBinaryFunc != nil ||
			info.zaryFuncWithState != nil || info.binaryFuncWithState != nil || info.ternaryFuncWithState != nil ||
			info.variadicFuncWithState != nil {
			b.Other = true
		}
		out = append(out, b)
	}
	return out
}
