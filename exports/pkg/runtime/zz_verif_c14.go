package runtime

// Added to the build through the overlay only (never present in /repo).
// Used by check C14: deep clone of a Stack including the frame and frame-set
// pools (stale contents of pooled frames are part of the state the search
// explores), preserving pointer identity structure.

import "github.com/johnkerl/miller/v6/pkg/types"

func (stack *Stack) VerifClone() *Stack {
	var fOld, fNew []*StackFrame
	var sOld, sNew []*StackFrameSet
	cf := func(f *StackFrame) *StackFrame {
		if f == nil {
			return nil
		}
		for i, o := range fOld {
			if o == f {
				return fNew[i]
			}
		}
		n := &StackFrame{
			vars:           make([]*types.TypeGatedMlrvalVariable, len(f.vars), cap(f.vars)),
			namesToOffsets: make(map[string]int, len(f.namesToOffsets)),
		}
		// the backing array beyond len may hold stale entries; they are unreachable through the API
		for i, v := range f.vars {
			n.vars[i] = v.VerifClone()
		}
		for k, v := range f.namesToOffsets {
			n.namesToOffsets[k] = v
		}
		fOld, fNew = append(fOld, f), append(fNew, n)
		return n
	}
	cs := func(s *StackFrameSet) *StackFrameSet {
		if s == nil {
			return nil
		}
		for i, o := range sOld {
			if o == s {
				return sNew[i]
			}
		}
		n := &StackFrameSet{
			stackFrames: make([]*StackFrame, len(s.stackFrames), cap(s.stackFrames)),
			pool:        make([]*StackFrame, len(s.pool), cap(s.pool)),
		}
		for i, f := range s.stackFrames {
			n.stackFrames[i] = cf(f)
		}
		for i, f := range s.pool {
			n.pool[i] = cf(f)
		}
		sOld, sNew = append(sOld, s), append(sNew, n)
		return n
	}
	out := &Stack{
		stackFrameSets: make([]*StackFrameSet, len(stack.stackFrameSets), cap(stack.stackFrameSets)),
		pool:           make([]*StackFrameSet, len(stack.pool), cap(stack.pool)),
	}
	for i, s := range stack.stackFrameSets {
		out.stackFrameSets[i] = cs(s)
	}
	for i, s := range stack.pool {
		out.pool[i] = cs(s)
	}
	out.head = cs(stack.head)
	return out
}

// VerifShape summarises live and pooled sizes (evidence only).
func (stack *Stack) VerifShape() (sets, pooledSets, frames, pooledFrames int) {
	sets, pooledSets = len(stack.stackFrameSets), len(stack.pool)
	for _, s := range stack.stackFrameSets {
		frames += len(s.stackFrames)
		pooledFrames += len(s.pool)
	}
	return
}
