package types

// Added to the build through the overlay only (never present in /repo).
// Used by check C14 to clone a runtime.Stack for depth-first search.

func (tvar *TypeGatedMlrvalVariable) VerifClone() *TypeGatedMlrvalVariable {
	if tvar == nil {
		return nil
	}
	c := *tvar
	// scalars too: an in-place overwrite in one search branch must not leak into a sibling branch
	if c.value != nil && !c.value.IsAbsent() {
		c.value = c.value.Copy()
	}
	return &c
}
