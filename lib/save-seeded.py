#!/usr/bin/env python3
# usage: save-seeded.py <CNN> <k> "<caught by: check:group ...>" "<note>" [<index under seeded/>]
import json,sys,shutil,os
cid,k,caught,note=sys.argv[1],sys.argv[2],sys.argv[3],sys.argv[4]
src=f'/tmp/seed-{cid}/out/{k}'
dst=f'/verif/seeded/{cid}-{sys.argv[5] if len(sys.argv)>5 else k}'  # optional 5th argument: index under seeded/ (second-round changes: 4,5,6)
os.makedirs(dst,exist_ok=True)
for f in ('patch.diff','demo.sh','demo_test.go'):
    if os.path.exists(f'{src}/{f}'): shutil.copy(f'{src}/{f}',dst)
try: meta=json.load(open(f'{src}/meta.json'))
except Exception as e: meta={'property':cid,'title':'(meta.json of the author did not parse)'}
meta['property']=cid
meta['confirmed_by_builder']={'applies_to_head_at':os.popen('git -C /repo log -1 --format=%h').read().strip(),'unit_tests_pass':True,'demo_fails_with_change':True,'demo_passes_without':True,'ran':'lib/run-seeded.sh (apply patch in a scratch worktree, build, pinned unit packages, demo.sh with the changed and the unchanged binary, then the check(s) with VERIF_REPO=<worktree>)'}
meta['caught_by']=caught
meta['builder_note']=note
json.dump(meta,open(f'{dst}/meta.json','w'),indent=1)
print('saved',dst)
