#!/bin/bash
# usage: run-seeded.sh <seed-dir containing patch.diff demo.sh meta.json> <check id>... 
# Confirms the change (applies, builds, unit tests pass, demo fails with it / passes without) and runs the named
# checks (quick tier) against the changed tree. Prints a summary; leaves nothing behind.
set -u
sd=$(readlink -f $1); shift
checks="$@"
name=$(echo $sd | tr -c "A-Za-z0-9\n" "-" | sed -e "s/^-*//" -e "s/tmp-//")
wt=/tmp/wt-seeded-$name
. /verif/lib/env.sh
git -C /repo worktree remove --force $wt 2>/dev/null
git -C /repo worktree add -q --detach $wt HEAD || exit 2
trap 'git -C /repo worktree remove --force $wt 2>/dev/null; rm -rf /verif/.cache/scratch-$(echo $wt | sha256sum | cut -c1-10)* ' EXIT
if ! git -C $wt apply $sd/patch.diff; then echo "RESULT $name: patch does not apply to HEAD"; exit 3; fi
PARSER=$(ensure_parser)
printf '{"Replace":{"%s":"%s"}}\n' "$wt/pkg/parsing/parser/parser.go" "$PARSER" > /tmp/ov-$name.json
( cd $wt && go build -overlay /tmp/ov-$name.json -o /tmp/mlr-seeded-$name ./cmd/mlr ) || { echo "RESULT $name: does not compile"; exit 3; }
ut=$(cd $wt && go test -vet=off -count=1 ./pkg/bifs/ ./pkg/mlrval/ ./pkg/lib/ ./pkg/input/ ./pkg/output/ ./pkg/cli/ ./pkg/scan/ ./pkg/dkvpx/ ./pkg/transformers/utils/ ./pkg/pbnjay-strptime/ 2>&1 | grep -c "^FAIL\|^--- FAIL")
demo_mut=NA; demo_clean=NA
if [ -f $sd/demo.sh ]; then
  timeout 600 bash $sd/demo.sh /tmp/mlr-seeded-$name >/tmp/demo-$name.mut 2>&1; demo_mut=$?
  timeout 600 bash $sd/demo.sh /verif/.cache/bin/mlr >/tmp/demo-$name.clean 2>&1; demo_clean=$?
fi
echo "CONFIRM $name: unit_test_failures=$ut demo_with_change_exit=$demo_mut demo_clean_exit=$demo_clean"
for id in $checks; do
  out=$(VERIF_REPO=$wt /verif/bin/verif check $id --tier quick 2>&1)
  rc=$?
  groups=$(echo "$out" | grep "violation groups" | head -1 | cut -c1-300)
  echo "CHECK $name $id: exit=$rc $groups"
  echo "$out" | grep "violation key=" | head -3 | cut -c1-300
done
rm -f /tmp/mlr-seeded-$name /tmp/ov-$name.json
