#!/usr/bin/env python3
# Generates /verif/MANIFEST.json from the table below (single source of truth).
import json
E2="bounded exhaustive input enumeration against a reference model (small-scope model checking of the implementation)"
E1="exhaustive schedule exploration of the implementation (stateless DFS with state caching under a controlled cooperative scheduler)"
CHECKS = {
 "C10": dict(engine="E2/E3", category="model_checking", technique=E2,
   text="All value streams up to n=4/5 over {1,2,3,-1,0.5,2.5,empty,abc,absent} and all group streams up to n=3 over group-text alphabets (incl. 1 vs 1.0, empty, absent, comma-containing and concatenation-ambiguous pairs) through every stats1 accumulator of the accumulator table (walked via an overlay export), percentiles p0..p100 x n=1..8/10 x both interpolation modes exhaustively, merge-fields, step (all steppers incl. shift_lead/ewma/sliding windows), count, count-distinct, count-similar, uniq, top, fraction, histogram, most/least-frequent, fill-down and the DSL stats functions; oracle = first-principles recomputation in math/big (validated against the documentation's worked examples at start-up) plus structural clauses (first-appearance group order by exact text, absent fields left out of that accumulation only, ints stay ints, counts add up).",
   note="Floating moments compared at relative tolerance 1e-9; cells where the docs allow two readings (empty values in count/mode, percentile at an exact boundary) accept both. Four genuine defects pinned by the repository's regression expectations are known findings."),
 "C12": dict(engine="E3+E2", category="model_checking", technique="explicit-state breadth-first search over the real Mlrmap transition functions with canonical-state dedupe + bounded exhaustive verb enumeration",
   text="(A) BFS over sequences of ~230 accessor calls on the real mlrval.Mlrmap in four construction modes in lock-step (lazy, hashed, unhashed, arena-built), from the empty map to its fixpoint and from 11/12/13-field pre-fills across the lazy-index threshold; after every transition the map equals a reference ordered list and satisfies the structural invariants (FieldCount, Prev/Next symmetry, Head/Tail, index == first entry per key), and all modes agree. (B) All 21 restructuring verbs through the real CLI on all records over nasty key alphabets x field lists incl. repeats and regex forms x flag combinations: model-free bystander law, per-verb reference models from the usage texts, and the property's inverse-pair / complement / keystroke-saver laws evaluated on the real code.",
   note="State counts are per-shard distinct states summed (over-count) except the exact empty-start closure (1266 states). Key-collision cases in rename -r/case/nest/reshape get only the bystander law. Two doc/usage inconsistencies are known findings."),
 "C16": dict(engine="E2", category="model_checking", technique=E2,
   text="Every day of years 1..9999 (thorough; quick: 1850..2150 plus every year's boundary days) at three times of day, every second in windows around 14 boundary instants, fractional seconds x 0-9 decimals, all %-code token sequences up to length 2/3 over 61 tokens, every integer in [-1e5,1e5] ([-2e5,2e5]) for the dhms family, all pairs of 604 dates x 6 units for datediff, and for 10 IANA zones every transition 1900-2037 with every second around it in both directions; oracles: an integer civil-from-days reference sharing nothing with Go's time package, Python zoneinfo on the same tzdata as a batch subprocess, inverse-pair laws and verb==function laws on the real code.",
   note="Overlaps accept either valid instant; gaps only 'number or error'. Zones outside the 10 and leap seconds not covered."),
 "C20": dict(engine="E3", category="model_checking", technique="exhaustive enumeration of target-switch histories (up to renaming) on the real redirect/split code in builds with the open-handle LRU capacity reduced to 2 and 3, plus structured families at the real capacity",
   text="ALL histories of (target, record) writes up to length 6/8 over 4 targets (capacity 2) and length 5/7 over 5 targets (capacity 3), canonical up to target renaming, through every routing statement/verb (tee >, emit >, emitf >, print >, printn >, dump >, tee >>, split -g, split -a) x output format (csv tsv json jsonl dkvp pprint xtab markdown csvlite); every target file is read back by an independent parser as ONE document holding exactly the routed records in order, union == routed input, no stray files; append mode preserves pre-existing content. Families at capacity 256 (cyclic 258x2, revisit after a 256-gap, sawtooth, two-pass 300) bind the reduced-capacity builds to the real constant.",
   note="The reduced builds differ from the real one only in one integer literal (tools/vinstr -const). Pipe targets are external processes and not enumerated. D9 (document restarted after eviction+reopen) is a known finding."),
 "C06": dict(engine="E2", category="model_checking", technique=E2,
   text="All strings up to length 5 (quick) / 6 (thorough) over the 23-symbol numeric alphabet plus a generated boundary list (2^k+-1 in four radixes, int64/uint64/double limits, every spelling class) in each inference mode {default,-S,-A,-O} and position {data field, JSON number, JSON string, DSL literal, five readers}, classified by the real inferrer and compared with a hand-written reference recogniser (exact values via big.Rat); agreement clause: typeof / is_* / asserting_* / arithmetic / sort -n judged against the single classification.",
   note="Strings outside the alphabet/length bound are not explored; cells the docs leave open (double-range overflow, non-two's-complement hex overflow, -O with 8/9) are counted as unconstrained. Trusted: the reference recogniser in checks/c06/ref.go (cross-checked against strconv at run time)."),
 "C08": dict(engine="E2", category="model_checking", technique="complete enumeration of the finite operand-kind matrix against rule predicates from the null-data reference",
   text="The complete matrix: 12 value kinds (several witnesses each) x every binary operator/function with a disposition matrix, every unary function of the builtin table, variadic min/max over all kind triples, evaluated by direct BIF call and through the DSL; oracle = rule predicates written from the property text and reference-main-null-data.md (absent is the unit, empty-with-number, error absorbs, commutativity of result kind, is_*/asserting_* consistency, the documented (+) (&&) (||) tables cell by cell); all assignment lvalue forms x absent right-hand sides must leave record/oosvars/locals unchanged; accumulation idiom over all short record sequences against a reference fold.",
   note="Cells no documented rule speaks about are evaluated and counted as unconstrained, not asserted. Two genuine defects are pinned by the repository's own regression expectations and listed as known findings."),
 "C09": dict(engine="E2", category="model_checking", technique=E2,
   text="All record lists up to length 5/6 over a 16-symbol key alphabet x all 15 flag spellings (one key), all lists up to length 3 x all comparator-kind pairs/triples (2-3 keys), >12-group ladders, DSL sort functions on all arrays/maps up to length 4/5, sort-within-records, top; predicate oracles (permutation of byte-identical records, key-less last in input order, identical key texts contiguous in input order, every pair of groups ordered under a reference comparator chain, documented stability) and comparator totality (reflexive/antisymmetric/transitive over all triples of a 47-value grid).",
   note="Order among booleans/empties/strings under numeric collation and tie order of equal-value distinct-text keys are not asserted (docs leave them open). Trusted: reference comparators in checks/c09/ref.go."),
 "C11": dict(engine="E2/E3", category="model_checking", technique=E2,
   text="All record streams up to N=4 (all 9^N group/payload patterns) and N<=6 (group patterns) with identity-carrying ids x every count k in -(N+1)..N+1 and +k forms x group-by lists x filter expressions for head, tail, decimate, filter, grep, having-fields, sample, bootstrap, shuffle, tac, group-by, group-like, uniq -a, cat -n -g, nothing, skip-trivial-records through the real CLI in-process; oracle = list-slice reference plus the property's laws evaluated on the real code (head/tail partition, filter/filter -x partition, tac twice, permutation and multiset laws, group sizes).",
   note="Which records the seeded random verbs pick is not asserted (only multiset laws). Streams longer than 6/8 records are outside the bound."),
 "C13": dict(engine="E2", category="model_checking", technique=E2,
   text="All left/right record lists up to length 3 (keys {1,2,empty,missing,01}, colliding non-join names, heterogeneous records, two-field keys incl. comma-containing values) x emit flag sets x --ignore-empty x -j/-l/-r namings x --lp/--rp/--lk variants x left-file formats, in unsorted and sorted (-s) mode, through the real CLI in-process against a nested-loop reference join; model-free laws: exactly-once under --ul --ur by record identity, --np removes exactly the paired, --ignore-empty never pairs empties, -s == unsorted as multisets on sorted inputs.",
   note="Order among unpaired records is not asserted (docs leave it open); -s on unsorted input only: terminates, no false pair."),
 "C19": dict(engine="E4", category="fault_enumeration", technique="exhaustive crash-point enumeration: every prefix and torn write of the strace-logged syscall history of the real binary replayed on a directory model; positional fault injection on the real binary",
   text="For each scenario (verb x format x file list incl. subdirectory and empty files x gzip/zlib x mode) the real `mlr -I` is run under strace; the logged history of open/write/close/rename/chmod/unlink calls is replayed on an in-memory directory model at EVERY prefix and at byte truncations of every write; on each crash state every named file must hold its original bytes or the complete final bytes (which must decode to what the same command without -I prints for that file alone), transformed files form a prefix of the list, at most one temp file exists. The model is validated per scenario: full replay == real final directory, byte for byte and mode for mode. Positional faults (DSL errors per file/record, ragged CSV, EFBIG at every offset step via prlimit, failing rename via strace injection, unwritable directory under setpriv, refusals) must exit non-zero with a diagnostic, leave failing and later files byte-identical, earlier files committed, and no temp file on the normal error path.",
   note="Crash model = process stop with the kernel surviving (prefix of the syscall history); power-loss reordering is outside the claim. Trusted: strace's log, the 150-line directory model (validated against the real outcome on every scenario)."),
 "C17": dict(engine="E1xE4", category="fault_enumeration", technique="exhaustive fault-position enumeration crossed with exhaustive schedule exploration of the implementation (controlled scheduler, DFS with state caching) + real-binary exit-status layer",
   text="Every fault configuration (fault kind x record/byte/write/file position x verb chain incl. failing verb in each chain position x --records-per-batch) is executed on the real pipeline under the cooperative scheduler over ALL goroutine schedules. Per execution: termination (no deadlock, no horizon overrun, no spin); whenever the fault is certainly reached every schedule must fail (non-nil error from Stream or trapped non-zero exit) with a diagnostic. Faults: malformed CSV/JSON rows, CSV-output schema change, DSL run-time failures (returned and os.Exit kinds, main and end blocks), per-file writer errors of tee/emit/split targets, unwritable redirect targets, stdout write failure at the n-th write, read error after k bytes for 12 readers, missing file at list position i. A real-binary layer (40 commands: /dev/full, directories, unreadable files under setpriv, corrupt gzip ...) pins exit status and diagnostic.",
   note="A fault behind an early-exit verb may legitimately never be reached (termination only). Reads/writes are positional answers of controlled readers/writers. Real-binary hangs decided by a 30 s deadline re-run 3x. Trusted: tools/vinstr rewrite, rt/verifrt."),
 "C04": dict(engine="E1", category="model_checking", technique=E1,
   text="Every configuration (verb chain x input x --records-per-batch) is run on the real pipeline under a cooperative scheduler that owns every channel operation, select, close, spawn and RNG draw; all schedules are enumerated (DFS by re-execution, state caching). Per execution: no deadlock, no step-horizon overrun, no goroutine fault; over all schedules and batch sizes of a (chain,input) pair the (stdout, error, tee file) outcome is a singleton and equals a list-algebra reference where one exists.",
   note="Goroutines are assumed to interact only through intercepted operations (plus the RNG, which is intercepted); inputs N<=4/6 records; external processes not scheduled. Trusted: tools/vinstr rewrite (syntactic), rt/verifrt scheduler."),
 "C07": dict(engine="E2", category="model_checking", technique=E2,
   text="Exhaustive enumeration of the full cross product of a boundary operand grid for every arithmetic operator, executed on the real BIFs and compared case by case with a math/big reference model; DSL tokens bound to the same BIFs by in-process runs.",
   note="Operands outside the grid are not explored. Trusted: math/big, the reference functions in harness/checks/c07."),
}
PENDING_REASON = "check not built yet (work in progress; see DESIGN.md §3 for the planned exhaustive check)"
ids=[json.loads(l)['id'] for l in open('/verif/properties.jsonl')]
checks=[]
for i in ids:
    if i not in CHECKS: continue
    c=CHECKS[i]
    checks.append({
      "property_id": i,
      "quick_cmd": f"bin/verif check {i} --tier quick",
      "thorough_cmd": f"bin/verif check {i} --tier thorough",
      "evidence_file": f"/verif/evidence/{i}.json",
      "replay_cmd_template": f"bin/verif check {i} --replay {{path}}",
      "engine": c["engine"],
      "level_claimed": {"category": c["category"], "text": c["text"], "design_ref": f"DESIGN.md §3 {i}"},
      "level_note": c["note"],
      "technique": c["technique"],
    })
m={
 "version": 1,
 "setup_cmd": "./setup.sh",
 "hooks": {
  "guard": "verif-overlay (no source guard: all instrumentation is generated at build time into a `go build -overlay` by tools/vinstr; /repo carries no hook code, so guard-off is the repository as is)",
  "enable": "bin/verif check <ID> runs tools/vinstr on /repo's current working tree and builds the harness with -overlay .cache/overlay/{plain,sched}/overlay.json",
  "baseline_off_cmd": "cd /repo && GOFLAGS=-mod=mod GOPROXY=off go test -vet=off -count=1 ./...",
  "source_commits": [],
  "add_only": True
 },
 "engines": [
  {"name":"E1 vsched","path":"rt/verifrt + harness/vf/explore.go","serves_properties":["C04","C13","C17","C20"],"kind_free_text":"cooperative scheduler + stateless DFS with state caching over the real pipeline goroutines (channel ops, selects, closes, spawns rewritten at build time by tools/vinstr)"},
  {"name":"E2 enum","path":"harness/vf + harness/checks","serves_properties":["C01","C02","C03","C05","C06","C07","C08","C09","C10","C11","C12","C13","C14","C15","C16","C18"],"kind_free_text":"bounded exhaustive enumeration of inputs/programs/configurations on the real code against reference models or laws, in a crash-attributing worker pool"},
  {"name":"E3 bfs","path":"harness/checks","serves_properties":["C12","C14","C20"],"kind_free_text":"explicit-state breadth-first search over real transition functions with canonical-state dedupe"},
  {"name":"E4 crash","path":"harness/checks/c19","serves_properties":["C19","C17"],"kind_free_text":"strace-logged syscall history of the real binary replayed at every prefix / torn write on a directory model; positional fault injection"}
 ],
 "checks": checks,
 "not_applicable": [{"property_id": i, "reason": PENDING_REASON} for i in ids if i not in CHECKS],
 "notes": "Model-checking family: every deciding step is an exhaustive enumeration within stated bounds on the real code. known-findings.json lists genuine defects (fixed / known)."
}
json.dump(m,open('/verif/MANIFEST.json','w'),indent=1)
