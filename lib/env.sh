# sourced by setup.sh and bin/verif
export VERIF=/verif
export REPO=${VERIF_REPO:-/repo}
export GOFLAGS=-mod=mod
export GOPROXY=off
export GOCACHE=$VERIF/.cache/gocache
export MLRRC=__none__
unset MLR_NO_COLOR MLR_ALWAYS_COLOR MLR_KEY_COLOR MLR_VALUE_COLOR MLR_PASS_COLOR MLR_FAIL_COLOR MLR_HELP_COLOR TZ
mkdir -p $VERIF/.cache/gocache $VERIF/.cache/parser $VERIF/.cache/bin $VERIF/.cache/overlay $VERIF/evidence $VERIF/replays

# ensure_parser: regenerates parser.go for the current mlr.bnf if not cached; echoes the path
ensure_parser() {
  local bnf=$REPO/pkg/parsing/mlr.bnf
  local h
  h=$(sha256sum "$bnf" | cut -c1-16)
  local dir=$VERIF/.cache/parser/$h
  if [ ! -s "$dir/parser.go" ]; then
    mkdir -p "$dir"
    (
      cd "$REPO" || exit 2
      # lock so that parallel checks do not regenerate at once
      exec 9>"$dir/.lock"
      flock 9
      if [ ! -s "$dir/parser.go" ]; then
        go run github.com/johnkerl/pgpg/go/generators/cmd/parsegen-tables -o "$dir/parser.json" "$bnf" >&2 || exit 2
        go run github.com/johnkerl/pgpg/go/generators/cmd/parsegen-code -o "$dir/parser.go.tmp" -package parser -type MlrParser "$dir/parser.json" >&2 || exit 2
        gofmt "$dir/parser.go.tmp" > "$dir/parser.go.tmp2" && mv "$dir/parser.go.tmp2" "$dir/parser.go"
        rm -f "$dir/parser.go.tmp"
      fi
    ) || return 2
  fi
  echo "$dir/parser.go"
}
