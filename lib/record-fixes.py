#!/usr/bin/env python3
# Record applied fix patches (from /verif/.cache/patches/cNN-*.patch) as "fixed" entries in known-findings.json.
import json,glob,re,subprocess,os
p='/verif/known-findings.json'
d=json.load(open(p))
log=subprocess.run(['git','-C','/repo','log','--format=%h\t%s'],capture_output=True,text=True).stdout.strip().split('\n')
bysubj={}
for l in log:
    h,s=l.split('\t',1); bysubj[s.strip()]=h
have={e.get('commit') for e in d if e.get('status')=='fixed'}
n=0
for f in sorted(glob.glob('/verif/.cache/patches/c*.patch')):
    prop='C'+re.match(r'c(\d+)-',os.path.basename(f)).group(1)
    txt=open(f).read()
    import email
    subj=email.message_from_string(txt)['Subject'] or ''
    subj=re.sub(r'\s*\n\s*',' ',subj).replace('[PATCH] ','',1).strip()
    h=bysubj.get(subj)
    if not h or h in have: continue
    what=subj[len('fix: '):] if subj.startswith('fix: ') else subj
    d.append({"property":prop,"status":"fixed","commit":h,"what":what,"line":f"fixed: property={prop} {h} {what}"})
    have.add(h); n+=1
json.dump(d,open(p,'w'),indent=1)
print('recorded',n,'new fixed entries;',len([e for e in d if e['status']=='fixed']),'fixed total')
