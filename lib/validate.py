#!/usr/bin/env python3-vt
import json,sys,glob,jsonschema
ok=True
m=json.load(open('/verif/MANIFEST.json'))
try:
    jsonschema.validate(m,json.load(open('/root/.vp/MANIFEST.schema.json')))
except Exception as e:
    print('MANIFEST invalid:',str(e)[:500]); ok=False
es=json.load(open('/root/.vp/EVIDENCE.schema.json'))
for f in sorted(glob.glob('/verif/evidence/C*.json')):
    try:
        jsonschema.validate(json.load(open(f)),es)
    except Exception as e:
        print(f,'invalid:',str(e)[:500]); ok=False
ids=[json.loads(l)['id'] for l in open('/verif/properties.jsonl')]
claimed=[c['property_id'] for c in m['checks']]
na=[n['property_id'] for n in m.get('not_applicable',[])]
missing=[i for i in ids if i not in claimed and i not in na]
print('claimed',len(claimed),'not_applicable',len(na),'unlisted',missing)
print('OK' if ok else 'INVALID')
