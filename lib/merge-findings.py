#!/usr/bin/env python3
# Merge /verif/selftest/*-findings.json (written by check authors) into /verif/known-findings.json (idempotent).
import json,glob
p='/verif/known-findings.json'
d=json.load(open(p))
have={(e.get('property'),e.get('match') or e.get('key')) for e in d if e.get('status')=='known'}
for f in sorted(glob.glob('/verif/selftest/*-findings.json')):
    for e in json.load(open(f)):
        k=(e.get('property'),e.get('match') or e.get('key'))
        if e.get('status')=='known' and k not in have:
            d.append({"property":e['property'],"status":"known","match":e.get('match',''),"what":e['what']})
            have.add(k)
json.dump(d,open(p,'w'),indent=1)
print(sum(1 for e in d if e['status']=='known'),'known;',sum(1 for e in d if e['status']=='fixed'),'fixed')
