#!/bin/bash
# usage: mkseed.sh C04  -> creates /tmp/seed-C04 (worktree of /repo HEAD with the regenerated parser dropped in, hidden from git diff)
id=$1; d=/tmp/seed-$id
git -C /repo worktree remove --force $d 2>/dev/null
git -C /repo worktree add -q --detach $d HEAD || exit 1
cp $(ls /verif/.cache/parser/*/parser.go | head -1) $d/pkg/parsing/parser/parser.go
git -C $d update-index --assume-unchanged pkg/parsing/parser/parser.go
cp $d/pkg/parsing/parser/parser.go /tmp/seed-parser-$id.go
mkdir -p $d/out
python3 - "$id" > $d/PROPERTY.txt <<'PY'
import json,sys
for l in open('/verif/properties.jsonl'):
    p=json.loads(l)
    if p['id']==sys.argv[1]:
        print('Property',p['id'],'-',p['title']); print(); print('Statement:',p['statement']); print(); print('Quantifier:',p['quantifier']['text']); print(); print('Why tests cannot settle it:',p['why_tests_cant']); print(); print('Anchored in:',', '.join(p['anchors']['files']))
        for m in p['anchors'].get('mechanism',[]): print('  mechanism:',m.get('name'),'@',m.get('where'))
PY
echo $d
