#!/usr/bin/env python3
import json,glob,os
rows=[]
for d in sorted(glob.glob('/verif/seeded/C*-*')):
    try: m=json.load(open(d+'/meta.json'))
    except: continue
    rows.append((os.path.basename(d),m.get('property',''),(m.get('title') or '')[:160].replace('|','/'),(m.get('caught_by') or '').replace('|','/'),(m.get('builder_note') or '').replace('|','/')))
out=['# Seeded property-breaking changes','',
'Each directory holds a change to johnkerl/miller written by an independent agent that saw ONLY the text of the property (and a scratch worktree of the repository), never anything from /verif: `patch.diff`, the author\'s demonstration (`demo.sh`, exits 1 with the change and 0 without), and `meta.json` (which property it breaks, what it needs in order to manifest, what was run). Each was confirmed by `lib/run-seeded.sh`: the patch applies to HEAD in a scratch worktree, compiles, the pinned unit packages pass, the demonstration fails with it and passes without it; then the named check(s) were run against the changed tree (`VERIF_REPO=<worktree> bin/verif check <ID> --tier quick`). None of these changes is ever committed to /repo.','',
'| change | property | what it does | caught by (check: violation group) | note |','|---|---|---|---|---|']
for r in rows: out.append('| '+' | '.join(r)+' |')
n=len(rows); first=sum(1 for r in rows if r[4].startswith('caught as written'))
out+=['',f'{n} changes kept; {first} were caught by the checks as they stood when the change arrived, the others led to the strengthening described in the note (and are caught since).','']
open('/verif/seeded/README.md','w').write('\n'.join(out))
print(n,first)
