#!/usr/bin/env python3
import json,glob,os
rows=[]
for d in sorted(glob.glob('/verif/seeded/C*-*')):
    try: m=json.load(open(d+'/meta.json'))
    except: continue
    rows.append((os.path.basename(d),m.get('property',''),(m.get('title') or '')[:160].replace('|','/'),(m.get('caught_by') or '').replace('|','/'),(m.get('builder_note') or '').replace('|','/')))
out=['# Seeded property-breaking changes','',
'Each directory holds a change to johnkerl/miller written by an independent agent that saw ONLY the text of the property (and a scratch worktree of the repository), never anything from /verif: `patch.diff`, the author\'s demonstration (`demo.sh`, exits 1 with the change and 0 without), and `meta.json` (which property it breaks, what it needs in order to manifest, what was run). Each was confirmed by `lib/run-seeded.sh`: the patch applies to HEAD in a scratch worktree, compiles, the pinned unit packages pass, the demonstration fails with it and passes without it; then the named check(s) were run against the changed tree (`VERIF_REPO=<worktree> bin/verif check <ID> --tier quick`). None of these changes is ever committed to /repo.','',
'| change | property | what it does | caught by (check: violation group) | note |','|---|---|---|---|---|']
for r in rows: out.append('| '+' | '.join(r)+' |')
def asw(note): return 'caught as written' in note and 'missed at first' not in note and not note.upper().startswith('MISSED')
n=len(rows); first=sum(1 for r in rows if asw(r[4]))
import collections
tal=collections.OrderedDict()
for r in rows:
    pid,k=r[0].split('-'); rnd=1 if int(k)<=3 else 2
    t=tal.setdefault(pid,{1:[0,0],2:[0,0]}); t[rnd][0]+=1; t[rnd][1]+=1 if asw(r[4]) else 0
out+=['','## Tally','','Round 1: three changes per property. Round 2 (after the round-1 strengthening; the authors were told what had already been delivered and had to choose other mechanisms and locations): three more for the properties listed. "as written" = caught by the checks as they stood when the change arrived; every change in the table is caught now.','','| property | round 1: as written / delivered | round 2: as written / delivered |','|---|---|---|']
for pid,t in tal.items():
    out.append(f"| {pid} | {t[1][1]} / {t[1][0]} | "+(f"{t[2][1]} / {t[2][0]}" if t[2][0] else "-")+" |")
r1=sum(t[1][1] for t in tal.values()),sum(t[1][0] for t in tal.values()); r2=sum(t[2][1] for t in tal.values()),sum(t[2][0] for t in tal.values())
out.append(f"| all | {r1[0]} / {r1[1]} | {r2[0]} / {r2[1]} |")
out+=['',f'{n} changes kept; {first} were caught by the checks as they stood when the change arrived, the others led to the strengthening described in the note (and are caught since).','']
open('/verif/seeded/README.md','w').write('\n'.join(out))
print(n,first)
