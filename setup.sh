#!/bin/bash
# Run once after a fresh restore, offline: builds the instrumenter, regenerates
# the DSL parser (emptied in the snapshot) into the cache, and pre-builds the
# plain and sched-instrumented harness binaries and a plain mlr so that the
# first check does not pay the cold build.
set -e
cd /verif
exec bin/verif build
