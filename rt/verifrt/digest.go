package verifrt

// ReflectDigest: a deterministic content digest of an arbitrary Go value (pointers followed, unexported fields read,
// map entries in digest order, cycles cut). No addresses, no iteration order, no clocks enter it.

import (
	"math"
	"reflect"
	"sort"
)

type digester struct {
	h       uint64
	visited map[uintptr]bool
	budget  int
}

func ReflectDigest(v any) uint64 {
	d := &digester{h: fnvOff, visited: map[uintptr]bool{}, budget: 200000}
	if v == nil {
		return mixs(d.h, "nil")
	}
	d.walk(reflect.ValueOf(v), 0)
	return d.h
}

func (d *digester) u(x uint64) { d.h = mixu(d.h, x) }
func (d *digester) s(x string) { d.h = mixs(d.h, x) }

func (d *digester) walk(v reflect.Value, depth int) {
	d.budget--
	if d.budget < 0 || depth > 200 {
		d.s("…")
		return
	}
	switch v.Kind() {
	case reflect.Invalid:
		d.s("invalid")
	case reflect.Bool:
		if v.Bool() {
			d.u(1)
		} else {
			d.u(0)
		}
	case reflect.Int, reflect.Int8, reflect.Int16, reflect.Int32, reflect.Int64:
		d.u(uint64(v.Int()))
	case reflect.Uint, reflect.Uint8, reflect.Uint16, reflect.Uint32, reflect.Uint64, reflect.Uintptr:
		d.u(v.Uint())
	case reflect.Float32, reflect.Float64:
		d.u(math.Float64bits(v.Float()))
	case reflect.Complex64, reflect.Complex128:
		c := v.Complex()
		d.u(math.Float64bits(real(c)))
		d.u(math.Float64bits(imag(c)))
	case reflect.String:
		d.s(v.String())
	case reflect.Ptr:
		if v.IsNil() {
			d.s("nilptr")
			return
		}
		p := v.Pointer()
		if d.visited[p] {
			d.s("seen")
			return
		}
		d.visited[p] = true
		d.s("*")
		d.walk(v.Elem(), depth+1)
	case reflect.Interface:
		if v.IsNil() {
			d.s("nilif")
			return
		}
		d.s(v.Elem().Type().String())
		d.walk(v.Elem(), depth+1)
	case reflect.Slice:
		if v.IsNil() {
			d.s("nilslice")
			return
		}
		fallthrough
	case reflect.Array:
		d.u(uint64(v.Len()))
		if v.Type().Elem().Kind() == reflect.Uint8 {
			for i := 0; i < v.Len(); i++ {
				d.h = (d.h ^ v.Index(i).Uint()) * fnvPrime
			}
			return
		}
		for i := 0; i < v.Len(); i++ {
			d.walk(v.Index(i), depth+1)
		}
	case reflect.Map:
		if v.IsNil() {
			d.s("nilmap")
			return
		}
		type kv struct{ k, v uint64 }
		var kvs []kv
		it := v.MapRange()
		for it.Next() {
			// entries are digested independently (own visited set would hide shared substructure differently per
			// order: use a fresh digester that shares only the budget)
			kd := &digester{h: fnvOff, visited: map[uintptr]bool{}, budget: d.budget}
			kd.walk(it.Key(), depth+1)
			vd := &digester{h: fnvOff, visited: map[uintptr]bool{}, budget: d.budget / 4}
			vd.walk(it.Value(), depth+1)
			kvs = append(kvs, kv{kd.h, vd.h})
			d.budget -= 8
		}
		sort.Slice(kvs, func(i, j int) bool {
			if kvs[i].k != kvs[j].k {
				return kvs[i].k < kvs[j].k
			}
			return kvs[i].v < kvs[j].v
		})
		d.u(uint64(len(kvs)))
		for _, e := range kvs {
			d.u(e.k)
			d.u(e.v)
		}
	case reflect.Struct:
		t := v.Type()
		if t.PkgPath() == "time" && t.Name() == "Time" {
			d.s("time") // wall/monotonic readings are not content
			return
		}
		if t.PkgPath() == "sync" || t.PkgPath() == "sync/atomic" {
			d.s("sync")
			return
		}
		for i := 0; i < v.NumField(); i++ {
			d.walk(v.Field(i), depth+1)
		}
	default: // Func, Chan, UnsafePointer
		d.s(v.Kind().String())
	}
}

// SortedKeys returns the keys of m in ascending order: the rewritten form of `for k, v := range m` at the sites
// where map-iteration order would decide the order of scheduling operations (see tools/vinstr sortedRangeSites).
func SortedKeys[K interface{ ~string | ~int | ~int64 }, V any](m map[K]V) []K {
	ks := make([]K, 0, len(m))
	for k := range m {
		ks = append(ks, k)
	}
	sort.Slice(ks, func(i, j int) bool { return ks[i] < ks[j] })
	return ks
}
