// Package verifrt is the run-time half of /verif's build-time instrumentation.
// It is mapped into the Miller module as pkg/verifrt through `go build
// -overlay`; it never exists in /repo. It may import only the standard library
// (pkg/lib imports it).
package verifrt

import (
	"fmt"
	"io"
	"os"
	"runtime/debug"
	"sync/atomic"
)

// ---------------------------------------------------------------- exit shim

// ExitPanic is what a trapped os.Exit turns into.
type ExitPanic struct{ Code int }

func (e ExitPanic) Error() string { return fmt.Sprintf("verifrt: os.Exit(%d)", e.Code) }

var exitTrap atomic.Bool

// TrapExits(true) makes every rewritten os.Exit panic with ExitPanic instead
// of leaving the process.
func TrapExits(on bool) { exitTrap.Store(on) }

// Exit replaces os.Exit in pkg/** (vinstr pass `exitshim`).
func Exit(code int) {
	if exitTrap.Load() {
		panic(ExitPanic{code})
	}
	os.Exit(code)
}

// ChildPanic is delivered to OnChildPanic when a goroutine started through
// verifrt.Go ends by panic (including a trapped exit) in free-running mode.
type ChildPanic struct {
	Value any
	Stack []byte
}

// OnChildPanic, when non-nil, receives panics of goroutines started with Go in
// free-running mode. When nil such a panic is re-raised (process dies as it
// would have).
var OnChildPanic atomic.Pointer[func(ChildPanic)]

func freeGo(fn func()) {
	go func() {
		defer func() {
			if r := recover(); r != nil {
				if cb := OnChildPanic.Load(); cb != nil {
					(*cb)(ChildPanic{r, debug.Stack()})
					return
				}
				panic(r)
			}
		}()
		fn()
	}()
}

// ---------------------------------------------------------------- open hooks

// OpenHookFn, when non-nil, is consulted by lib.PathToHandle before the real
// open. Returning ok=false falls through to the real file system.
var OpenHookFn func(path string) (h io.ReadCloser, err error, ok bool)

func OpenHook(path string) (io.ReadCloser, error, bool) {
	if f := OpenHookFn; f != nil {
		return f(path)
	}
	return nil, nil, false
}

// StdinFn, when non-nil, supplies the process's standard input.
var StdinFn func() io.ReadCloser

func Stdin() io.ReadCloser {
	if f := StdinFn; f != nil {
		return f()
	}
	return os.Stdin
}
