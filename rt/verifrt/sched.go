package verifrt

// Cooperative scheduler: under Run exactly one instrumented goroutine runs at
// a time; every channel operation, select, close, spawn, mutex acquisition and
// environment choice is a scheduling point that publishes its pending
// operation and parks until the explorer picks it.

import (
	"fmt"
	"os"
	"reflect"
	"runtime"
	"runtime/debug"
	"sort"
	"sync"
	"time"
)

const (
	opStart = iota
	opSend
	opRecv
	opSelect
	opClose
	opLock
	opChoose
	opQuiesce
	opResume
)

var opNames = []string{"start", "send", "recv", "select", "close", "lock", "choose", "quiesce", "resume"}

type Case struct {
	send bool
	ch   reflect.Value
}

func R(ch any) Case { return Case{false, reflect.ValueOf(ch)} }
func S(ch any) Case { return Case{true, reflect.ValueOf(ch)} }

type op struct {
	kind       int
	ch         reflect.Value
	cases      []Case
	hasDefault bool
	chosen     int // select: case index or -1; choose: alternative
	n          int // choose: number of alternatives
	tag        string
	mu         *Mutex
	site       string
	passive    bool // set by the scheduler: perform the native op, ack, park again (rendezvous)
}

var checkIdentity = os.Getenv("VERIF_RT_CHECK") != ""

func curGoid() uint64 {
	var buf [64]byte
	n := runtime.Stack(buf[:], false)
	// "goroutine 123 ["
	var id uint64
	for _, c := range buf[10:n] {
		if c < '0' || c > '9' {
			break
		}
		id = id*10 + uint64(c-'0')
	}
	return id
}

type G struct {
	goid    uint64
	eager   chan struct{} // non-nil while the goroutine is being run to its first scheduling point by its parent
	id      string
	wake    chan struct{}
	pending *op
	done    bool
	hist    uint64
	nspawn  int
	nmake   int
	nops    int
}

type chanInfo struct {
	id     string
	queue  []uint64 // message ids in flight (buffered channels)
	closed bool
}

type Option struct {
	g          *G
	alt        int
	partner    *G // rendezvous receiver
	partnerAlt int
}

type Sched struct {
	gs        []*G
	running   *G
	yield     chan struct{}
	ack       chan struct{}
	chans     map[uintptr]*chanInfo
	chanList  []*chanInfo
	aborting  bool
	exited    chan struct{}
	Steps     int
	fault     *Fault
	trace     []string
	wantTr    bool
	timer     *time.Timer
	sharedOrd map[string]uint64
}

// Fault describes an abnormal end of a controlled goroutine.
type Fault struct {
	Goroutine string
	Exit      bool
	Code      int
	Panic     string
	Stack     string
}

var cur *Sched

// Active reports whether a scheduler is controlling the current execution.
func Active() bool { return cur != nil }

const fnvOff = 14695981039346656037
const fnvPrime = 1099511628211

func mixs(h uint64, s string) uint64 {
	for i := 0; i < len(s); i++ {
		h ^= uint64(s[i])
		h *= fnvPrime
	}
	h ^= 0xff
	h *= fnvPrime
	return h
}
func mixu(h uint64, u uint64) uint64 {
	for i := 0; i < 8; i++ {
		h ^= u & 0xff
		h *= fnvPrime
		u >>= 8
	}
	return h
}

func (s *Sched) info(ch reflect.Value) *chanInfo {
	p := ch.Pointer()
	ci := s.chans[p]
	if ci == nil {
		ci = &chanInfo{id: fmt.Sprintf("anon%d", len(s.chans))}
		s.chans[p] = ci
		s.chanList = append(s.chanList, ci)
	}
	return ci
}

// Reg gives a freshly made channel a schedule-independent identity
// (creating goroutine, creation ordinal).
func Reg[T any](ch chan T) chan T {
	s := cur
	if s == nil {
		return ch
	}
	g := s.running
	g.nmake++
	ci := &chanInfo{id: fmt.Sprintf("%s#%d", g.id, g.nmake)}
	s.chans[reflect.ValueOf(ch).Pointer()] = ci
	s.chanList = append(s.chanList, ci)
	return ch
}

// park publishes o as g's pending operation and blocks until chosen.
func (s *Sched) park(g *G, o *op) {
	if checkIdentity {
		if id := curGoid(); g.goid != 0 && id != g.goid {
			panic(fmt.Sprintf("verifrt: OS goroutine %d reached a scheduling point (%s@%s) but the scheduler believes %s (goroutine %d) is running: an uncontrolled goroutine performs controlled operations", id, opNames[o.kind], o.site, g.id, g.goid))
		}
	}
	g.pending = o
	if e := g.eager; e != nil {
		g.eager = nil
		e <- struct{}{} // first scheduling point reached: hand control back to the spawning goroutine
	} else {
		s.yield <- struct{}{}
	}
	<-g.wake
	if s.aborting {
		runtime.Goexit()
	}
	g.pending = nil
	g.nops++
}

// passiveWait: after a native rendezvous op, acknowledge and wait to be resumed.
func (s *Sched) passiveWait(g *G) {
	s.ack <- struct{}{}
	<-g.wake
	if s.aborting {
		runtime.Goexit()
	}
	g.hist = mixs(g.hist, "resumed")
	g.pending = nil
}

func (s *Sched) spawn(fn func(), id string) *G {
	g := &G{id: id, wake: make(chan struct{}), pending: &op{kind: opStart}, hist: mixs(fnvOff, id)}
	s.gs = append(s.gs, g)
	go func() {
		defer func() { s.exited <- struct{}{} }()
		<-g.wake
		if s.aborting {
			return
		}
		if checkIdentity {
			g.goid = curGoid()
		}
		// starting is a transition: a goroutine that has started and is parked at its first operation is in a
		// different state from one that has not started (its pending operation, hence the set of enabled options,
		// differs), so it must show in the history the state key is built from
		g.hist = mixs(g.hist, "started")
		g.pending = nil
		defer func() {
			if s.aborting {
				// being reaped (Goexit) or dying during the reap: nothing to report
				_ = recover()
				return
			}
			if r := recover(); r != nil {
				f := &Fault{Goroutine: g.id}
				if e, ok := r.(ExitPanic); ok {
					f.Exit, f.Code = true, e.Code
				} else {
					f.Panic = fmt.Sprint(r)
					f.Stack = string(debug.Stack())
				}
				if s.fault == nil {
					s.fault = f
				}
			}
			g.done = true
			if e := g.eager; e != nil {
				g.eager = nil
				e <- struct{}{}
			} else {
				s.yield <- struct{}{}
			}
		}()
		fn()
	}()
	return g
}

// Go replaces the go statement.
func Go(fn func()) {
	s := cur
	if s == nil {
		freeGo(fn)
		return
	}
	if s.aborting {
		return
	}
	p := s.running
	p.nspawn++
	g := s.spawn(fn, fmt.Sprintf("%s.%d", p.id, p.nspawn))
	// Eager start (a partial-order reduction): the code a goroutine runs before its first scheduling point is local,
	// so its start commutes with every other transition; every schedule is equivalent to one in which the goroutine
	// runs to its first scheduling point right after being spawned. Do exactly that, then continue the parent.
	e := make(chan struct{})
	g.eager = e
	s.running = g
	g.wake <- struct{}{}
	<-e
	s.running = p
}

func (s *Sched) noteSend(g *G, rv reflect.Value) uint64 {
	ci := s.info(rv)
	g.hist = mixs(mixs(g.hist, "S"), ci.id)
	if rv.Cap() > 0 {
		ci.queue = append(ci.queue, g.hist)
	}
	return g.hist
}

func (s *Sched) noteRecv(g *G, rv reflect.Value, rendezvousMid uint64) {
	ci := s.info(rv)
	var mid uint64
	if rv.Cap() == 0 {
		mid = rendezvousMid
		if ci.closed {
			mid = 1
		}
	} else if len(ci.queue) > 0 {
		mid = ci.queue[0]
		ci.queue = ci.queue[1:]
	} else {
		mid = 1 // closed and drained
	}
	g.hist = mixu(mixs(mixs(g.hist, "R"), ci.id), mid)
}

// SendTok is returned by PreSend; Post must be called right after the native send.
type SendTok struct {
	g       *G
	s       *Sched
	passive bool
}

func (t SendTok) Post() {
	if t.passive {
		t.s.passiveWait(t.g)
	}
}

// PreSend is the scheduling point of `ch <- v`; the native send follows in the
// rewritten code.
func PreSend(ch any, at string) SendTok {
	s := cur
	if s == nil {
		return SendTok{}
	}
	if s.aborting {
		// being reaped: the native send that follows must not block
		runtime.Goexit()
	}
	g := s.running
	rv := reflect.ValueOf(ch)
	o := &op{kind: opSend, ch: rv, site: at}
	s.park(g, o)
	if o.passive {
		return SendTok{g: g, s: s, passive: true}
	}
	s.noteSend(g, rv)
	return SendTok{}
}

// DigestFn, when set, maps a value that travels through a channel to a deterministic content digest. The digest of a
// sent value enters the sender's history BEFORE it parks at the send, and the digest of a received value enters the
// receiver's history: a result that a goroutine computed from memory it shares with another goroutine (a record it has
// already passed on, a reused batch slice) then distinguishes states that the operation histories alone would merge.
// It refines the state key only (never merges more), so it cannot make the search unsound.
var DigestFn func(v any) uint64

// PreSendV is PreSend for a send whose value is known (every plain send statement).
func PreSendV(ch any, v any, at string) SendTok {
	if s := cur; s != nil && !s.aborting && DigestFn != nil {
		g := s.running
		g.hist = mixu(mixs(g.hist, "V"), DigestFn(v))
	}
	return PreSend(ch, at)
}

func noteRecvValue(g *G, v any) {
	if DigestFn != nil {
		g.hist = mixu(mixs(g.hist, "v"), DigestFn(v))
	}
}

func Recv[T any](ch <-chan T, at string) T {
	v, _ := Recv2(ch, at)
	return v
}

func Recv2[T any](ch <-chan T, at string) (T, bool) {
	s := cur
	if s == nil {
		v, ok := <-ch
		return v, ok
	}
	if s.aborting {
		var zero T
		select {
		case v, ok := <-ch:
			return v, ok
		default:
			return zero, false
		}
	}
	g := s.running
	rv := reflect.ValueOf(ch)
	o := &op{kind: opRecv, ch: rv, site: at}
	s.park(g, o)
	if o.passive {
		v, ok := <-ch
		s.passiveWait(g)
		noteRecvValue(g, any(v))
		return v, ok
	}
	s.noteRecv(g, rv, 0)
	v, ok := <-ch
	noteRecvValue(g, any(v))
	return v, ok
}

func Close[T any](ch chan<- T, at string) {
	s := cur
	if s == nil {
		close(ch)
		return
	}
	if s.aborting {
		func() {
			defer func() { _ = recover() }()
			close(ch)
		}()
		return
	}
	g := s.running
	rv := reflect.ValueOf(ch)
	s.park(g, &op{kind: opClose, ch: rv, site: at})
	ci := s.info(rv)
	ci.closed = true
	g.hist = mixs(mixs(g.hist, "C"), ci.id)
	close(ch)
}

// Sel is the result of an instrumented select.
type Sel struct {
	I       int
	g       *G
	s       *Sched
	passive bool
}

// Post is called in every rewritten select arm right after the native
// communication.
func (x Sel) Post() {
	if x.passive {
		x.s.passiveWait(x.g)
	}
}

func Select(hasDefault bool, at string, cases ...Case) Sel {
	s := cur
	if s == nil {
		panic("verifrt.Select without a scheduler: the sched-instrumented build only runs under the explorer")
	}
	if s.aborting {
		runtime.Goexit()
	}
	g := s.running
	o := &op{kind: opSelect, cases: cases, hasDefault: hasDefault, site: at}
	s.park(g, o)
	if o.passive {
		return Sel{I: o.chosen, g: g, s: s, passive: true}
	}
	if o.chosen >= 0 {
		c := cases[o.chosen]
		g.hist = mixu(mixs(g.hist, "sel"), uint64(o.chosen))
		if c.send {
			s.noteSend(g, c.ch)
		} else {
			s.noteRecv(g, c.ch, 0)
		}
	} else {
		g.hist = mixs(g.hist, "sel-default")
	}
	return Sel{I: o.chosen, g: g, s: s}
}

// Mutex replaces sync.Mutex in instrumented packages. Lock is a scheduling
// point only when the mutex is held.
type Mutex struct {
	held   bool
	native sync.Mutex
}

func (m *Mutex) Lock() {
	s := cur
	if s == nil {
		m.native.Lock()
		return
	}
	if s.aborting {
		return
	}
	g := s.running
	if m.held {
		s.park(g, &op{kind: opLock, mu: m})
	}
	m.held = true
	g.hist = mixs(g.hist, "L")
}

func (m *Mutex) Unlock() {
	s := cur
	if s == nil {
		m.native.Unlock()
		return
	}
	m.held = false
}

// Choose is an environment decision point: the calling goroutine stays
// enabled with n alternatives, each explored.
func Choose(n int, tag string) int {
	s := cur
	if s == nil || s.aborting || n <= 1 {
		return 0
	}
	g := s.running
	o := &op{kind: opChoose, n: n, tag: tag}
	s.park(g, o)
	g.hist = mixu(mixs(mixs(g.hist, "choose"), tag), uint64(o.chosen))
	return o.chosen
}

// AwaitQuiescence parks until no other goroutine can move.
func AwaitQuiescence() {
	s := cur
	if s == nil || s.aborting {
		return
	}
	g := s.running
	s.park(g, &op{kind: opQuiesce})
	g.hist = mixs(g.hist, "q")
}

// Yield is a plain scheduling point (always enabled).
func Yield(tag string) {
	s := cur
	if s == nil || s.aborting {
		return
	}
	g := s.running
	s.park(g, &op{kind: opChoose, n: 1, tag: tag})
	g.hist = mixs(mixs(g.hist, "y"), tag)
}

// Shared marks an access to process-wide mutable state that several
// goroutines touch outside channels (the RNG): a scheduling point, and the
// global access order becomes part of the accessing goroutine's history.
func Shared(name string) {
	s := cur
	if s == nil || s.aborting {
		return
	}
	g := s.running
	s.park(g, &op{kind: opChoose, n: 1, tag: "shared:" + name})
	if s.sharedOrd == nil {
		s.sharedOrd = map[string]uint64{}
	}
	s.sharedOrd[name]++
	g.hist = mixu(mixs(mixs(g.hist, "sh"), name), s.sharedOrd[name])
}

// Note folds harness-visible state into the running goroutine's history (so
// that state caching distinguishes it).
func Note(tag string) {
	s := cur
	if s == nil || s.aborting {
		return
	}
	s.running.hist = mixs(mixs(s.running.hist, "n"), tag)
}

func (s *Sched) sendReady(ch reflect.Value) bool {
	if ch.IsNil() {
		return false
	}
	if s.info(ch).closed {
		return true // will panic natively, as Go does
	}
	return ch.Cap() > 0 && ch.Len() < ch.Cap()
}

func (s *Sched) recvReady(ch reflect.Value) bool {
	if ch.IsNil() {
		return false
	}
	return ch.Len() > 0 || s.info(ch).closed
}

// receivers returns (goroutine, alt) pairs parked on a receive of ch.
func (s *Sched) receivers(ch reflect.Value, except *G) []Option {
	var out []Option
	p := ch.Pointer()
	for _, g := range s.gs {
		if g == except || g.done || g.pending == nil {
			continue
		}
		o := g.pending
		switch o.kind {
		case opRecv:
			if o.ch.Pointer() == p {
				out = append(out, Option{g: g})
			}
		case opSelect:
			for i, c := range o.cases {
				if !c.send && !c.ch.IsNil() && c.ch.Pointer() == p {
					out = append(out, Option{g: g, alt: i})
				}
			}
		}
	}
	return out
}

func (s *Sched) options() []Option {
	var out []Option
	var quiescers []Option
	for _, g := range s.gs {
		if g.done || g.pending == nil {
			continue
		}
		o := g.pending
		switch o.kind {
		case opStart, opClose, opResume:
			out = append(out, Option{g: g})
		case opLock:
			if !o.mu.held {
				out = append(out, Option{g: g})
			}
		case opChoose:
			for i := 0; i < o.n; i++ {
				out = append(out, Option{g: g, alt: i})
			}
		case opQuiesce:
			quiescers = append(quiescers, Option{g: g})
		case opSend:
			if s.sendReady(o.ch) {
				out = append(out, Option{g: g})
			} else if !o.ch.IsNil() && o.ch.Cap() == 0 {
				for _, r := range s.receivers(o.ch, g) {
					out = append(out, Option{g: g, partner: r.g, partnerAlt: r.alt})
				}
			}
		case opRecv:
			if s.recvReady(o.ch) {
				out = append(out, Option{g: g})
			}
		case opSelect:
			n := 0
			for i, c := range o.cases {
				if c.send {
					if s.sendReady(c.ch) {
						out = append(out, Option{g: g, alt: i})
						n++
					} else if !c.ch.IsNil() && c.ch.Cap() == 0 {
						for _, r := range s.receivers(c.ch, g) {
							out = append(out, Option{g: g, alt: i, partner: r.g, partnerAlt: r.alt})
							n++
						}
					}
				} else if s.recvReady(c.ch) {
					out = append(out, Option{g: g, alt: i})
					n++
				} else if !c.ch.IsNil() && c.ch.Cap() == 0 && s.hasSender(c.ch, g) {
					n++ // the rendezvous is listed from the sender's side; only suppress default
				}
			}
			if n == 0 && o.hasDefault {
				out = append(out, Option{g: g, alt: -1})
			}
		}
	}
	if len(out) == 0 {
		return quiescers
	}
	return out
}

func (s *Sched) hasSender(ch reflect.Value, except *G) bool {
	p := ch.Pointer()
	for _, g := range s.gs {
		if g == except || g.done || g.pending == nil {
			continue
		}
		o := g.pending
		switch o.kind {
		case opSend:
			if !o.ch.IsNil() && o.ch.Pointer() == p {
				return true
			}
		case opSelect:
			for _, c := range o.cases {
				if c.send && !c.ch.IsNil() && c.ch.Pointer() == p {
					return true
				}
			}
		}
	}
	return false
}

// Key is the canonical global state: per-goroutine histories (which determine
// each goroutine's local state, goroutines being deterministic functions of
// what they received) plus channel contents.
func (s *Sched) Key() uint64 {
	parts := make([]string, 0, len(s.gs)+len(s.chanList))
	for _, g := range s.gs {
		pk := -1
		if g.pending != nil {
			pk = g.pending.kind
		}
		parts = append(parts, fmt.Sprintf("g%s:%x:%v:%d", g.id, g.hist, g.done, pk))
	}
	for _, ci := range s.chanList {
		if len(ci.queue) > 0 || ci.closed {
			parts = append(parts, fmt.Sprintf("c%s:%v:%x", ci.id, ci.closed, ci.queue))
		}
	}
	sort.Strings(parts)
	h := uint64(fnvOff)
	for _, p := range parts {
		h = mixs(h, p)
	}
	return h
}

type Result struct {
	Choices   []int      // choice index at every point with more than one option
	NOpts     []int      // number of options at those points
	Keys      []uint64   // state key at those points
	OptDescs  [][]string // with RunConfig.Audit: the options at those points
	NLast     []int      // number of leading options that belong to the previously running goroutine (0: it is not enabled)
	Deadlock  bool
	Cut       bool // stopped at an already-expanded state
	Horizon   bool // step horizon exceeded
	Stalled   bool // a goroutine ran too long without reaching a scheduling point
	Blocked   []string
	Steps     int
	Fault     *Fault
	Trace     []string
	MainDone  bool
	LiveAfter int // goroutines neither done nor main when main returned
}

// Config of one controlled execution.
type RunConfig struct {
	Prefix    []int
	Seen      func(step int, key uint64, nopts int) bool // true => state already expanded, cut
	MaxSteps  int
	Trace     bool
	StallSecs int
	Audit     bool                      // record the option descriptions (and keys also inside the prefix) at every branching point
	Chooser   func(step, nopts int) int // beyond the prefix: which option to take (default 0); used by diagnostic random walks
}

func describe(o Option) string {
	p := o.g.pending
	d := fmt.Sprintf("%s:%s", o.g.id, opNames[p.kind])
	if p.kind == opSelect || p.kind == opChoose {
		d += fmt.Sprintf("[%d]", o.alt)
	}
	if p.tag != "" {
		d += "(" + p.tag + ")"
	}
	if p.site != "" {
		d += "@" + p.site
	}
	if o.partner != nil {
		d += "<->" + o.partner.id
	}
	return d
}

// Run executes main under the scheduler following cfg.Prefix and then always
// the first option. Options are in canonical order: the previously running
// goroutine first if it is still enabled, then the others in creation order.
func Run(main func(), cfg RunConfig) Result {
	s := &Sched{yield: make(chan struct{}), ack: make(chan struct{}), chans: map[uintptr]*chanInfo{}, exited: make(chan struct{}, 1<<16), wantTr: cfg.Trace}
	if cur != nil {
		panic("verifrt.Run: nested")
	}
	cur = s
	defer func() { cur = nil }()
	if cfg.MaxSteps == 0 {
		cfg.MaxSteps = 200000
	}
	if cfg.StallSecs == 0 {
		cfg.StallSecs = 60
	}
	g0 := s.spawn(main, "m")
	var res Result
	var last *G
	for !g0.done && s.fault == nil {
		opts := s.options()
		if len(opts) == 0 {
			res.Deadlock = true
			for _, g := range s.gs {
				if !g.done && g.pending != nil {
					res.Blocked = append(res.Blocked, fmt.Sprintf("%s:%s@%s", g.id, opNames[g.pending.kind], g.pending.site))
				}
			}
			break
		}
		// canonical order: last-running first
		if last != nil {
			k := -1
			for i, o := range opts {
				if o.g == last {
					k = i
					break
				}
			}
			if k > 0 {
				// move the block of last's options to the front, keeping relative order
				var a, b []Option
				for _, o := range opts {
					if o.g == last {
						a = append(a, o)
					} else {
						b = append(b, o)
					}
				}
				opts = append(a, b...)
			}
		}
		choice := 0
		if len(opts) > 1 {
			i := len(res.Choices)
			var key uint64
			if i < len(cfg.Prefix) {
				// replaying: the state was keyed when this prefix was generated
				choice = cfg.Prefix[i]
				if choice >= len(opts) {
					panic(fmt.Sprintf("verifrt: replay divergence at point %d: choice %d of %d options", i, choice, len(opts)))
				}
			} else {
				key = s.Key()
				if cfg.Seen != nil && cfg.Seen(i, key, len(opts)) {
					res.Cut = true
					break
				}
				if cfg.Chooser != nil {
					choice = cfg.Chooser(i, len(opts))
				}
			}
			res.Choices = append(res.Choices, choice)
			res.NOpts = append(res.NOpts, len(opts))
			res.Keys = append(res.Keys, key)
			if cfg.Audit {
				ds := make([]string, len(opts))
				for k, o := range opts {
					ds[k] = describe(o)
				}
				res.OptDescs = append(res.OptDescs, ds)
				if key == 0 {
					res.Keys[len(res.Keys)-1] = s.Key()
				}
			}
			nl := 0
			for _, o := range opts {
				if last != nil && o.g == last {
					nl++
				}
			}
			res.NLast = append(res.NLast, nl)
		}
		o := opts[choice]
		if s.wantTr {
			s.trace = append(s.trace, describe(o))
		}
		s.Steps++
		if s.Steps > cfg.MaxSteps {
			res.Horizon = true
			break
		}
		p := o.g.pending
		switch p.kind {
		case opSelect, opChoose:
			p.chosen = o.alt
		}
		if o.partner != nil {
			// rendezvous on an unbuffered channel: both sides perform the
			// native operation passively, then wait to be resumed.
			sg, rg := o.g, o.partner
			sp, rp := sg.pending, rg.pending
			if rp.kind == opSelect {
				rp.chosen = o.partnerAlt
			}
			var ch reflect.Value
			if sp.kind == opSelect {
				ch = sp.cases[o.alt].ch
				sg.hist = mixu(mixs(sg.hist, "sel"), uint64(o.alt))
			} else {
				ch = sp.ch
			}
			mid := s.noteSend(sg, ch)
			if rp.kind == opSelect {
				rg.hist = mixu(mixs(rg.hist, "sel"), uint64(o.partnerAlt))
			}
			s.noteRecv(rg, ch, mid)
			sp.passive, rp.passive = true, true
			s.running = rg
			rg.wake <- struct{}{}
			sg.wake <- struct{}{}
			if !s.waitAck(cfg.StallSecs) || !s.waitAck(cfg.StallSecs) {
				res.Stalled = true
				break
			}
			sg.pending = &op{kind: opResume}
			rg.pending = &op{kind: opResume}
			last = nil
			continue
		}
		s.running = o.g
		last = o.g
		o.g.wake <- struct{}{}
		if !s.waitYield(cfg.StallSecs) {
			res.Stalled = true
			break
		}
		if last.done || last.pending == nil {
			last = nil
		}
	}
	res.Steps = s.Steps
	res.Fault = s.fault
	res.Trace = s.trace
	res.MainDone = g0.done
	for _, g := range s.gs {
		if g != g0 && !g.done {
			res.LiveAfter++
		}
	}
	if res.Stalled {
		// a goroutine is running away; it cannot be reaped. The caller must
		// abandon this process.
		return res
	}
	// reap
	s.aborting = true
	n := 0
	for _, g := range s.gs {
		if !g.done {
			g.wake <- struct{}{}
			n++
		}
	}
	for i := 0; i < len(s.gs); i++ {
		<-s.exited
	}
	return res
}

func (s *Sched) waitOn(ch chan struct{}, secs int) bool {
	if s.timer == nil {
		s.timer = time.NewTimer(time.Duration(secs) * time.Second)
	} else {
		s.timer.Reset(time.Duration(secs) * time.Second)
	}
	select {
	case <-ch:
		s.timer.Stop()
		return true
	case <-s.timer.C:
		return false
	}
}

func (s *Sched) waitYield(secs int) bool { return s.waitOn(s.yield, secs) }
func (s *Sched) waitAck(secs int) bool   { return s.waitOn(s.ack, secs) }
